#!/bin/bash
# usage: benign_run.sh <label> <patch> [secs]  - applies a property-preserving change to a scratch copy of /repo and
# runs the quick check of every claimed property against it; prints one line per property (any violation or
# infrastructure exit here is a false alarm of the machinery, or the change is not as benign as claimed).
set -u
LABEL=$1; PATCH=$2; SECS=${3:-12}
export GOFLAGS=-mod=mod GOPROXY=off GOSUMDB=off GOTOOLCHAIN=local
D=$(mktemp -d -p /var/tmp benign-XXXXXX)
trap 'rm -rf "$D"' EXIT
rsync -a --exclude .git /repo/ "$D/repo/"
(cd "$D/repo" && patch -p1 -s < "$PATCH") || { echo "$LABEL: patch failed"; exit 2; }
(cd "$D/repo" && go build ./engine ./builder ./context ./internal/... ) || { echo "$LABEL: does not build"; exit 2; }
cd /verif
for P in C04 C05 C06 C07 C08 C09 C10 C11 C12 C13 C14 C15 C16 C17 C18 C19; do
  VERIF_REPO="$D/repo" VERIF_SECS=$SECS VERIF_SCRATCH="$D" ./check "$P" --tier quick >"$D/o.txt" 2>&1; rc=$?
  echo "$LABEL $P exit=$rc $(grep -E '^check C' $D/o.txt | cut -c1-80)"
  if [ $rc -ne 0 ]; then grep -E "^(violation|check: INFRA)" "$D/o.txt" | cut -c1-600 | head -8; fi
done
