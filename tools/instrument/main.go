// instrument copies a Go module tree and rewrites the copy so that the
// deterministic simulator (verif/sim/simrt, verif/sim/simsync) owns every
// source of nondeterminism the code has no seam for:
//
//  1. import "sync"           -> import sync "verif/sim/simsync"
//  2. go f(args)              -> simrt.Go(func(){...}) / simrt.GoCall(f, args...)
//  3. for k, v := range <map> -> iteration over simrt.KeysStr/KeysAny (seeded order)
//  4. simrt.P(n);             spliced before every statement of selected files
//
// All rewrites are byte-offset splices that never add or remove a newline, so
// every line number in the copy equals the line number in the original tree.
// None of the passes knows an identifier of the instrumented project.
//
// usage: instrument -src /repo -dst /scratch/gengine -psites engine,builder,context,internal/base/conc_statement.go,internal/base/rule_entity.go
// exit status 2 on any failure (the checks treat that as infrastructure trouble).
package main

import (
	"encoding/json"
	"flag"
	"fmt"
	"go/ast"
	"go/token"
	"go/types"
	"io"
	"os"
	"path/filepath"
	"sort"
	"strings"

	"golang.org/x/tools/go/packages"
)

const (
	rtAlias  = "vsimrt"
	rtPath   = "verif/sim/simrt"
	syncPath = "verif/sim/simsync"
)

type edit struct {
	off, del int
	ins      string
}

type site struct {
	ID   int    `json:"id"`
	File string `json:"file"`
	Line int    `json:"line"`
	Col  int    `json:"col"`
	Func string `json:"func"`
}

type report struct {
	Files            int      `json:"files_rewritten"`
	SyncImports      int      `json:"sync_imports"`
	GoStmts          int      `json:"go_statements"`
	GoStmtsGeneric   int      `json:"go_statements_generic_form"`
	MapRanges        int      `json:"map_ranges"`
	MapRangesSkipped []string `json:"map_ranges_undeterminised"`
	PSites           int      `json:"p_sites"`
	Sites            []site   `json:"sites"`
	MapRangeAt       []string `json:"map_range_at"`
	GoAt             []string `json:"go_at"`
	WallClock        []string `json:"wall_clock_timers"` // uses of time.After/NewTimer/NewTicker/Tick/AfterFunc in the code under test
}

func die(format string, a ...interface{}) {
	fmt.Fprintf(os.Stderr, "instrument: "+format+"\n", a...)
	os.Exit(2)
}

func main() {
	src := flag.String("src", "/repo", "module root to copy")
	dst := flag.String("dst", "", "destination directory (created)")
	psites := flag.String("psites", "", "comma separated package dirs or files (relative to the module root) that get P-sites")
	skip := flag.String("skip", "test,.git", "comma separated top-level dirs not copied")
	noRewrite := flag.String("norewrite", "internal/iantlr", "comma separated dir prefixes copied but not rewritten")
	flag.Parse()
	if *dst == "" {
		die("-dst required")
	}
	if err := copyTree(*src, *dst, strings.Split(*skip, ",")); err != nil {
		die("copy: %v", err)
	}
	cfg := &packages.Config{
		Mode: packages.NeedName | packages.NeedFiles | packages.NeedCompiledGoFiles | packages.NeedImports |
			packages.NeedTypes | packages.NeedTypesSizes | packages.NeedSyntax | packages.NeedTypesInfo,
		Dir:   *dst,
		Env:   append(os.Environ(), "GOFLAGS=-mod=mod", "GOPROXY=off", "GOSUMDB=off"),
		Tests: false,
	}
	pkgs, err := packages.Load(cfg, "./...")
	if err != nil {
		die("load: %v", err)
	}
	var rep report
	nextSite := 1
	pset := map[string]bool{}
	for _, p := range strings.Split(*psites, ",") {
		if p = strings.TrimSpace(p); p != "" {
			pset[filepath.Clean(p)] = true
		}
	}
	nor := strings.Split(*noRewrite, ",")
	sort.Slice(pkgs, func(i, j int) bool { return pkgs[i].PkgPath < pkgs[j].PkgPath })
	for _, pkg := range pkgs {
		if len(pkg.Errors) > 0 {
			die("package %s: %v", pkg.PkgPath, pkg.Errors[0])
		}
		for i, f := range pkg.Syntax {
			fn := pkg.CompiledGoFiles[i]
			rel, err := filepath.Rel(*dst, fn)
			if err != nil || strings.HasPrefix(rel, "..") {
				continue
			}
			skipIt := false
			for _, n := range nor {
				if n != "" && strings.HasPrefix(rel, filepath.Clean(n)+string(filepath.Separator)) {
					skipIt = true
				}
			}
			if skipIt {
				continue
			}
			wantP := pset[rel] || pset[filepath.Dir(rel)]
			n, err := rewriteFile(pkg, f, fn, rel, wantP, &nextSite, &rep)
			if err != nil {
				die("%s: %v", rel, err)
			}
			if n > 0 {
				rep.Files++
			}
		}
	}
	rep.PSites = nextSite - 1
	out, _ := json.MarshalIndent(rep, "", " ")
	if err := os.WriteFile(filepath.Join(*dst, ".vsites.json"), out, 0o644); err != nil {
		die("%v", err)
	}
	fmt.Printf("instrumented: files=%d sync=%d go=%d(+%d generic) mapranges=%d skipped=%d psites=%d\n",
		rep.Files, rep.SyncImports, rep.GoStmts, rep.GoStmtsGeneric, rep.MapRanges, len(rep.MapRangesSkipped), rep.PSites)
}

func copyTree(src, dst string, skip []string) error {
	sk := map[string]bool{}
	for _, s := range skip {
		sk[s] = true
	}
	return filepath.Walk(src, func(p string, info os.FileInfo, err error) error {
		if err != nil {
			return err
		}
		rel, _ := filepath.Rel(src, p)
		if rel == "." {
			return os.MkdirAll(dst, 0o755)
		}
		top := strings.Split(rel, string(filepath.Separator))[0]
		if sk[top] {
			if info.IsDir() {
				return filepath.SkipDir
			}
			return nil
		}
		if info.IsDir() {
			return os.MkdirAll(filepath.Join(dst, rel), 0o755)
		}
		if !info.Mode().IsRegular() {
			return nil
		}
		if strings.HasSuffix(rel, "_test.go") {
			return nil
		}
		ext := filepath.Ext(rel)
		if ext != ".go" && ext != ".mod" && ext != ".sum" {
			return nil
		}
		in, err := os.Open(p)
		if err != nil {
			return err
		}
		defer in.Close()
		out, err := os.Create(filepath.Join(dst, rel))
		if err != nil {
			return err
		}
		defer out.Close()
		_, err = io.Copy(out, in)
		return err
	})
}

func rewriteFile(pkg *packages.Package, f *ast.File, fn, rel string, wantP bool, nextSite *int, rep *report) (int, error) {
	fset := pkg.Fset
	tf := fset.File(f.Pos())
	srcb, err := os.ReadFile(fn)
	if err != nil {
		return 0, err
	}
	off := func(p token.Pos) int { return tf.Offset(p) }
	var edits []edit
	needRT := false

	// pass 1: sync import
	for _, imp := range f.Imports {
		if imp.Path.Value == `"sync"` {
			if imp.Name != nil {
				edits = append(edits, edit{off(imp.Path.Pos()), len(imp.Path.Value), `"` + syncPath + `"`})
			} else {
				edits = append(edits, edit{off(imp.Path.Pos()), len(imp.Path.Value), `sync "` + syncPath + `"`})
			}
			rep.SyncImports++
		}
	}

	// file-level import names for spelling key types
	qual := func(p *types.Package) string {
		if p == pkg.Types {
			return ""
		}
		for _, imp := range f.Imports {
			path := strings.Trim(imp.Path.Value, `"`)
			if path == p.Path() {
				if imp.Name != nil {
					return imp.Name.Name
				}
				return p.Name()
			}
		}
		return "\x00" // not spellable in this file
	}

	labeled := map[ast.Stmt]bool{}
	ast.Inspect(f, func(n ast.Node) bool {
		if l, ok := n.(*ast.LabeledStmt); ok {
			labeled[l.Stmt] = true
		}
		// wall-clock waiting is not simulated (the code under test has none): report it, the driver refuses to judge
		if se, ok := n.(*ast.SelectorExpr); ok {
			if id, ok := se.X.(*ast.Ident); ok {
				if pn, ok := pkg.TypesInfo.Uses[id].(*types.PkgName); ok && pn.Imported().Path() == "time" {
					switch se.Sel.Name {
					case "After", "NewTimer", "NewTicker", "Tick", "AfterFunc": // (a plain time.Sleep is handled: the sleeper counts as blocked outside the simulator)
						pp := fset.Position(se.Pos())
						rep.WallClock = append(rep.WallClock, fmt.Sprintf("%s:%d time.%s", rel, pp.Line, se.Sel.Name))
					}
				}
			}
		}
		return true
	})

	rangeN := 0
	var curFunc string
	var walk func(n ast.Node) bool
	walk = func(n ast.Node) bool {
		switch x := n.(type) {
		case *ast.FuncDecl:
			curFunc = x.Name.Name
			if x.Recv != nil && len(x.Recv.List) > 0 {
				curFunc = types.ExprString(x.Recv.List[0].Type) + "." + curFunc
			}
		case *ast.GoStmt:
			call := x.Call
			pos := fset.Position(x.Pos())
			rep.GoAt = append(rep.GoAt, fmt.Sprintf("%s:%d", rel, pos.Line))
			if lit, ok := call.Fun.(*ast.FuncLit); ok && len(call.Args) == 0 && lit.Type.Params.NumFields() == 0 {
				// go func(){...}()  ->  vsimrt.Go(func(){...})
				edits = append(edits, edit{off(x.Go), 2, rtAlias + ".Go("})
				edits = append(edits, edit{off(call.Lparen), off(call.Rparen) + 1 - off(call.Lparen), ")"})
				rep.GoStmts++
			} else {
				if call.Ellipsis.IsValid() {
					rep.MapRangesSkipped = append(rep.MapRangesSkipped, fmt.Sprintf("%s:%d: go statement with variadic spread not rewritten", rel, pos.Line))
					return true
				}
				// go f(a, b)  ->  vsimrt.GoCall(f, a, b)   (callee and arguments evaluated now, call made in the new task)
				edits = append(edits, edit{off(x.Go), 2, rtAlias + ".GoCall("})
				if len(call.Args) == 0 {
					edits = append(edits, edit{off(call.Lparen), 1, ""})
				} else {
					edits = append(edits, edit{off(call.Lparen), 1, ","})
				}
				rep.GoStmtsGeneric++
			}
			needRT = true
		case *ast.RangeStmt:
			t := pkg.TypesInfo.TypeOf(x.X)
			if t == nil {
				return true
			}
			mt, ok := t.Underlying().(*types.Map)
			if !ok {
				return true
			}
			pos := fset.Position(x.Pos())
			where := fmt.Sprintf("%s:%d", rel, pos.Line)
			if x.Key == nil {
				return true // `for range m`: order is unobservable
			}
			skipWhy := ""
			if labeled[x] {
				skipWhy = "labeled loop"
			}
			if x.Tok != token.DEFINE {
				skipWhy = "range with = instead of :="
			}
			keyName, valName := identName(x.Key), identName(x.Value)
			if (x.Key != nil && keyName == "") || (x.Value != nil && valName == "") {
				skipWhy = "non-identifier range variable"
			}
			var keysCall, zero, conv string
			if b, ok := mt.Key().Underlying().(*types.Basic); ok && b.Info()&types.IsString != 0 && types.Identical(mt.Key(), types.Typ[types.String]) {
				keysCall, zero = rtAlias+".KeysStr", `""`
			} else if ok && b.Info()&(types.IsInteger|types.IsFloat|types.IsString) != 0 {
				ts := types.TypeString(mt.Key(), qual)
				if strings.Contains(ts, "\x00") {
					skipWhy = "key type not spellable in this file"
				}
				keysCall, conv = rtAlias+".KeysAny", ".("+ts+")"
				if b.Info()&types.IsString != 0 {
					zero = ts + `("")`
				} else {
					zero = ts + "(0)"
				}
			} else {
				skipWhy = "key type " + mt.Key().String() + " has no canonical order"
			}
			if skipWhy != "" {
				rep.MapRangesSkipped = append(rep.MapRangesSkipped, where+": "+skipWhy)
				return true
			}
			rangeN++
			sm := fmt.Sprintf("__sm%d", rangeN)
			okv := fmt.Sprintf("__ok%d", rangeN)
			kv := keyName
			if kv == "_" {
				kv = fmt.Sprintf("__k%d", rangeN)
			}
			xsrc := string(srcb[off(x.X.Pos()):off(x.X.End())])
			if strings.Contains(xsrc, "\n") {
				rep.MapRangesSkipped = append(rep.MapRangesSkipped, where+": multi-line range operand")
				return true
			}
			var b strings.Builder
			fmt.Fprintf(&b, "{ %s := %s; ", sm, xsrc)
			hasVal := x.Value != nil && valName != "_"
			if hasVal {
				fmt.Fprintf(&b, "%s, %s := %s[%s]; _, _ = %s, %s; ", valName, okv, sm, zero, valName, okv)
			}
			if conv == "" {
				fmt.Fprintf(&b, "for _, %s := range %s(%s) { ", kv, keysCall, sm)
			} else {
				fmt.Fprintf(&b, "for _, __ki%d := range %s(%s) { %s := __ki%d%s; ", rangeN, keysCall, sm, kv, rangeN, conv)
			}
			if hasVal {
				fmt.Fprintf(&b, "if %s, %s = %s[%s]; !%s { continue }; ", valName, okv, sm, kv, okv)
			} else {
				fmt.Fprintf(&b, "if _, %s := %s[%s]; !%s { continue }; ", okv, sm, kv, okv)
			}
			if keyName == "_" {
				// nothing: the synthetic key name is used by the lookup above
			}
			start, end := off(x.For), off(x.Body.Lbrace)+1
			if strings.Contains(string(srcb[start:end]), "\n") {
				rep.MapRangesSkipped = append(rep.MapRangesSkipped, where+": multi-line range header")
				return true
			}
			edits = append(edits, edit{start, end - start, b.String()})
			edits = append(edits, edit{off(x.Body.Rbrace) + 1, 0, " }"})
			rep.MapRanges++
			rep.MapRangeAt = append(rep.MapRangeAt, where)
			needRT = true
		}
		return true
	}
	ast.Inspect(f, walk)

	// pass 4: P-sites
	if wantP {
		var fstack []string
		var visit func(n ast.Node)
		// splitRMW turns a read-modify-write of one location (x.f = append(x.f, v), x.n = x.n + 1, x.n += d,
		// x.n++) into read, pre-emption point, write: without the lock that should guard it, another
		// task's update of the same location can then fall between the two halves and be lost - as it can
		// on real hardware.  Same line, same evaluation order (no calls on the left-hand side).
		hasCall := func(e ast.Expr) bool {
			found := false
			ast.Inspect(e, func(n ast.Node) bool {
				switch n.(type) {
				case *ast.CallExpr, *ast.FuncLit:
					found = true
				}
				return !found
			})
			return found
		}
		text := func(a, b token.Pos) string { return string(srcb[off(a):off(b)]) }
		oneLine := func(a, b token.Pos) bool { return !strings.Contains(text(a, b), "\n") }
		newSite := func(pos token.Pos, fname string) int {
			pp := fset.Position(pos)
			id := *nextSite
			*nextSite++
			rep.Sites = append(rep.Sites, site{id, rel, pp.Line, pp.Column, fname + " (rmw)"})
			return id
		}
		splitRMW := func(st ast.Stmt, fname string) {
			switch a := st.(type) {
			case *ast.AssignStmt:
				if len(a.Lhs) != 1 || len(a.Rhs) != 1 {
					return
				}
				lhs, rhs := a.Lhs[0], a.Rhs[0]
				switch l := lhs.(type) {
				case *ast.SelectorExpr, *ast.IndexExpr:
				case *ast.Ident:
					if l.Name == "_" {
						return
					}
				default:
					return
				}
				if hasCall(lhs) || !oneLine(lhs.Pos(), rhs.Pos()) {
					return
				}
				ls := types.ExprString(lhs)
				op := ""
				switch a.Tok {
				case token.ASSIGN:
					// only when the right-hand side reads the same location
					reads := false
					ast.Inspect(rhs, func(n ast.Node) bool {
						if e, ok := n.(ast.Expr); ok && !reads {
							switch e.(type) {
							case *ast.SelectorExpr, *ast.IndexExpr, *ast.Ident:
								if types.ExprString(e) == ls {
									reads = true
								}
							}
						}
						return !reads
					})
					if !reads {
						return
					}
				case token.ADD_ASSIGN:
					op = "+"
				case token.SUB_ASSIGN:
					op = "-"
				default:
					return
				}
				// the right-hand side must not hold a function literal: its body is instrumented separately
				lit := false
				ast.Inspect(rhs, func(n ast.Node) bool {
					if _, ok := n.(*ast.FuncLit); ok {
						lit = true
					}
					return !lit
				})
				if lit {
					return
				}
				id := newSite(a.Pos(), fname)
				tmp := fmt.Sprintf("vsimT%d", id)
				lt := text(lhs.Pos(), lhs.End())
				if op == "" {
					edits = append(edits, edit{off(a.Pos()), 0, fmt.Sprintf("{%s := ", tmp)})
					edits = append(edits, edit{off(lhs.Pos()), off(rhs.Pos()) - off(lhs.Pos()), ""})
					edits = append(edits, edit{off(a.End()), 0, fmt.Sprintf("; %s.P(%d); %s = %s}", rtAlias, id, lt, tmp)})
				} else {
					edits = append(edits, edit{off(a.Pos()), 0, fmt.Sprintf("{%s := %s %s (", tmp, lt, op)})
					edits = append(edits, edit{off(lhs.Pos()), off(rhs.Pos()) - off(lhs.Pos()), ""})
					edits = append(edits, edit{off(a.End()), 0, fmt.Sprintf("); %s.P(%d); %s = %s}", rtAlias, id, lt, tmp)})
				}
			case *ast.IncDecStmt:
				switch a.X.(type) {
				case *ast.SelectorExpr, *ast.IndexExpr:
				default:
					return // a plain counter variable: loop indices and the like
				}
				if hasCall(a.X) || !oneLine(a.Pos(), a.End()) {
					return
				}
				id := newSite(a.Pos(), fname)
				tmp := fmt.Sprintf("vsimT%d", id)
				lt := text(a.X.Pos(), a.X.End())
				op := "+"
				if a.Tok == token.DEC {
					op = "-"
				}
				edits = append(edits, edit{off(a.Pos()), off(a.End()) - off(a.Pos()), fmt.Sprintf("{%s := %s; %s.P(%d); %s = %s %s 1}", tmp, lt, rtAlias, id, lt, tmp, op)})
			}
		}
		addSites := func(list []ast.Stmt, fname string) {
			for _, s := range list {
				switch s.(type) {
				case *ast.CaseClause, *ast.CommClause:
					continue // the "statements" of a switch/select body are its clauses
				}
				p := fset.Position(s.Pos())
				id := *nextSite
				*nextSite++
				rep.Sites = append(rep.Sites, site{id, rel, p.Line, p.Column, fname})
				edits = append(edits, edit{off(s.Pos()), 0, fmt.Sprintf("%s.P(%d);", rtAlias, id)})
				needRT = true
				splitRMW(s, fname)
			}
		}
		visit = func(n ast.Node) {
			ast.Inspect(n, func(m ast.Node) bool {
				switch y := m.(type) {
				case *ast.FuncDecl:
					name := y.Name.Name
					if y.Recv != nil && len(y.Recv.List) > 0 {
						name = types.ExprString(y.Recv.List[0].Type) + "." + name
					}
					fstack = append(fstack, name)
					if y.Body != nil {
						visit(y.Body)
					}
					fstack = fstack[:len(fstack)-1]
					return false
				case *ast.ForStmt, *ast.RangeStmt:
					// a site on the loop's back edge, so that a loop without statements (a busy wait on an
					// atomic, say) still passes a pre-emption point on every round
					var body *ast.BlockStmt
					if f, ok := y.(*ast.ForStmt); ok {
						body = f.Body
					} else {
						body = y.(*ast.RangeStmt).Body
					}
					if body != nil {
						fname := ""
						if len(fstack) > 0 {
							fname = fstack[len(fstack)-1]
						}
						pp := fset.Position(body.Lbrace)
						id := *nextSite
						*nextSite++
						rep.Sites = append(rep.Sites, site{id, rel, pp.Line, pp.Column, fname + " (loop)"})
						edits = append(edits, edit{off(body.Lbrace) + 1, 0, fmt.Sprintf("%s.P(%d);", rtAlias, id)})
						needRT = true
					}
				case *ast.BlockStmt:
					fname := ""
					if len(fstack) > 0 {
						fname = fstack[len(fstack)-1]
					}
					addSites(y.List, fname)
				case *ast.CaseClause:
					fname := ""
					if len(fstack) > 0 {
						fname = fstack[len(fstack)-1]
					}
					addSites(y.Body, fname)
				case *ast.CommClause:
					fname := ""
					if len(fstack) > 0 {
						fname = fstack[len(fstack)-1]
					}
					addSites(y.Body, fname)
				}
				return true
			})
		}
		for _, d := range f.Decls {
			if fd, ok := d.(*ast.FuncDecl); ok {
				visit(fd)
			}
		}
	}

	if len(edits) == 0 {
		return 0, nil
	}
	if needRT {
		// `package x` -> `package x; import vsimrt "verif/sim/simrt"`
		edits = append(edits, edit{off(f.Name.End()), 0, fmt.Sprintf(`; import %s "%s"`, rtAlias, rtPath)})
	}
	sort.SliceStable(edits, func(i, j int) bool {
		if edits[i].off != edits[j].off {
			return edits[i].off < edits[j].off
		}
		// at equal offsets pure insertions go before replacements
		return edits[i].del == 0 && edits[j].del != 0
	})
	var out []byte
	last := 0
	for _, e := range edits {
		if e.off < last {
			return 0, fmt.Errorf("overlapping edits at offset %d", e.off)
		}
		if strings.Contains(e.ins, "\n") {
			return 0, fmt.Errorf("edit would add a newline at offset %d", e.off)
		}
		if strings.Contains(string(srcb[e.off:e.off+e.del]), "\n") {
			return 0, fmt.Errorf("edit would delete a newline at offset %d", e.off)
		}
		out = append(out, srcb[last:e.off]...)
		out = append(out, e.ins...)
		last = e.off + e.del
	}
	out = append(out, srcb[last:]...)
	if strings.Count(string(out), "\n") != strings.Count(string(srcb), "\n") {
		return 0, fmt.Errorf("line count changed")
	}
	return len(edits), os.WriteFile(fn, out, 0o644)
}

func identName(e ast.Expr) string {
	if e == nil {
		return ""
	}
	if id, ok := e.(*ast.Ident); ok {
		return id.Name
	}
	return ""
}
