#!/usr/bin/env python3
"""Writes one prompt per claimed property for a wave of independent seeding sub-agents.
usage: mkprompts.py <wave-number> [props...]   -> /tmp/seed<wave>-prompt-<id>.txt
The prompt holds the property text, the scratch worktree / output paths and the one-line summaries of the
changes seeded earlier for that property (so that a new idea is looked for) - nothing about the checks."""
import json, glob, os, sys
wave = sys.argv[1]
props = sys.argv[2:] or ['C%02d' % i for i in range(4, 20)]
here = os.path.dirname(os.path.abspath(__file__))
base = open(os.path.join(here, 'prompt.txt')).read()
ptxt = {}
for l in open('/verif/properties.jsonl'):
    d = json.loads(l)
    ptxt[d['id']] = "%s: %s\n\n%s\n\nQuantified over: %s\n\nWhy the existing tests cannot settle it: %s\n\nAnchored in: %s" % (
        d['id'], d['title'], d['statement'], d['quantifier']['text'], d['why_tests_cant'], json.dumps(d['anchors']))
known = {}
for d in sorted(glob.glob('/verif/seeded/*')):
    try:
        m = json.load(open(d + '/meta.json'))
    except Exception:
        continue
    if m.get('property'):
        known.setdefault(m['property'], []).append(m.get('summary', '')[:260])
extra = '''

Already known ideas that you must NOT reuse (find something genuinely different - a different function, mechanism or trigger):
KNOWN_IDEAS
Prefer a trigger that is a multi-step history, an unusual parameter combination, a boundary value, a fault at a particular point, or a particular interleaving. Any Go construct is allowed in the change (channels, sync.Cond, atomics, goroutines, timers) as long as a maintainer could plausibly have written it.
'''
hints = {'b': '\nAnother person is working on the same property at the same time; to avoid producing the same idea, prefer a change OUTSIDE the file that looks most obviously responsible for the property (a helper, a data structure, the AST evaluation in internal/base, the data context, the builder) and a trigger that involves an unusual SHAPE of input (sizes, nesting, repetition, aliasing of caller-provided values, kinds of rule statements) rather than timing.\n'}
for item in props:
    p, _, variant = item.partition(':')
    k = '\n'.join('  (%d) %s' % (i + 1, x) for i, x in enumerate(known.get(p, [])))
    t = (base + extra).replace('WORKTREE', '/tmp/seed%s-%s%s' % (wave, p, variant)).replace('OUTDIR', '/tmp/seed%s-%s%s-out' % (wave, p, variant)) \
        .replace('PROPERTY_TEXT', ptxt[p]).replace('PROPID', p).replace('KNOWN_IDEAS', k)
    if p == 'C19':
        t += '\nNote for this property: demonstrate with `go test -race -mod=mod -vet=off -count=1 ./test/seeded/` (fails under -race with the change, passes under -race without it) and say so in meta.json demo_cmd.\n'
    t += hints.get(variant, '')
    open('/tmp/seed%s-prompt-%s%s.txt' % (wave, p, variant), 'w').write(t)
print({p: len(known.get(p.partition(':')[0], [])) for p in props})
