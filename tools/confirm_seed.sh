#!/bin/bash
# usage: confirm_seed.sh <name> <dir with patch.diff, seeded_demo_test.go, meta.json> <property> [more properties to run]
# Confirms a seeded change in a scratch copy of /repo (compiles, existing suite passes, demo fails with / passes
# without the change), runs the quick checks of the given properties against it, and files it under /verif/seeded/<name>/.
set -u
NAME=$1; SRC=$2; shift 2; PROPS="$*"
export GOFLAGS=-mod=mod GOPROXY=off GOSUMDB=off GOTOOLCHAIN=local
D=$(mktemp -d -p /var/tmp seedchk-XXXXXX)
trap 'rm -rf "$D"' EXIT
OUT=/verif/seeded/$NAME
mkdir -p "$OUT"
cp "$SRC/patch.diff" "$OUT/patch.diff"
cp "$SRC"/seeded_demo_test.go "$OUT/seeded_demo_test.go" 2>/dev/null
rsync -a --exclude .git /repo/ "$D/repo/"
mkdir -p "$D/repo/test/seeded" && cp "$OUT/seeded_demo_test.go" "$D/repo/test/seeded/"
cd "$D/repo"
demo_without=$(go test -mod=mod -vet=off -count=1 ./test/seeded/ >"$D/demo_without.log" 2>&1 && echo pass || echo FAIL)
patch -p1 -s < "$OUT/patch.diff" || { echo "patch does not apply"; exit 2; }
builds=$(go build ./engine ./builder ./context ./internal/... >"$D/build.log" 2>&1 && echo yes || echo NO)
demo_with=$(go test -mod=mod -vet=off -count=1 ./test/seeded/ >"$D/demo_with.log" 2>&1 && echo pass || echo FAIL)
go test -mod=mod -json -vet=off -count=1 -timeout 25m $(go list ./... | grep -v /test/seeded) > "$D/suite.json" 2>/dev/null
suite=$(python3 - "$D/suite.json" <<'PY'
import json,sys
base=json.load(open('/root/.vp/BASELINE.json'))
res={}
for l in open(sys.argv[1]):
    try: d=json.loads(l)
    except: continue
    if d.get('Test') and d.get('Action') in ('pass','fail') and '/' not in d['Test']:
        res[d['Package']+'::'+d['Test']]=d['Action']
missing=[t for t in base['stable_pass'] if res.get(t)!='pass']
print('pass' if not missing else 'FAIL:'+','.join(missing))
PY
)
detected=""
cd /verif
for P in $PROPS; do
  VERIF_REPO="$D/repo" VERIF_SECS=${SEED_SECS:-12} VERIF_SCRATCH="$D" ./check "$P" --tier quick >"$D/check.out" 2>"$D/check.err"; rc=$?
  r=$(grep -E "^(violation|check )" "$D/check.out" | cut -c1-300)
  n=$(echo "$r" | grep -c "^violation")
  if [ $rc -ge 2 ]; then n="INFRA-EXIT-$rc"; fi
  sigs=$(echo "$r" | grep "^violation" | sed 's/^violation \([^:]*\):.*/\1/' | sort -u | tr '\n' ' ')
  detected="$detected$P:$n[$sigs] "
done
python3 - "$OUT" "$SRC/meta.json" "$builds" "$suite" "$demo_with" "$demo_without" "$detected" "$PROPS" <<'PY'
import json,sys
out,meta,builds,suite,dw,dwo,det,props=sys.argv[1:9]
try: m=json.load(open(meta))
except Exception: m={}
m['confirmed_by_me']={'compiles':builds,'existing_suite_77_stable':suite,'demo_with_change':dw,'demo_without_change':dwo,
  'ran':'tools/confirm_seed.sh in a scratch copy of /repo: go build; go test ./... (77 stable tests compared with BASELINE.json); demo with and without the patch; ./check <prop> --tier quick against the patched copy (VERIF_REPO)',
  'quick_checks_run':props.split(),'detected':det.strip()}
json.dump(m,open(out+'/meta.json','w'),indent=1)
print(json.dumps(m['confirmed_by_me'],indent=1))
PY
