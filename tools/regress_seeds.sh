#!/bin/bash
# usage: regress_seeds.sh <n> [secs]  - re-runs the check of a random sample of the seeded changes (their own property)
# and prints one line per change: detected / MISSED / exit 2.  A regression guard for generator changes.
N=${1:-30}; SECS=${2:-20}
cd /verif
ls seeded | python3 -c "
import sys,random
random.seed(int(__import__('os').environ.get('REGRESS_SEED','1')))
l=[x.strip() for x in sys.stdin if x.strip()]
random.shuffle(l); print('\n'.join(l[:$N]))" | while read d; do
  prop=$(python3 -c "import json;print(json.load(open('/verif/seeded/$d/meta.json'))['property'])")
  out=$(./tools/try_mutant.sh $prop /verif/seeded/$d/patch.diff $SECS 2>&1)
  rc=$(echo "$out" | grep -o "exit=[0-9]*" | tail -1)
  n=$(echo "$out" | grep -c "^violation")
  echo "$d $prop $rc violations=$n"
done
