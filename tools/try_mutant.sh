#!/bin/bash
# usage: try_mutant.sh <prop> <patch-file|-> [secs]   (patch read from stdin when "-")
# Applies a patch to a scratch copy of /repo and runs the quick check of <prop> against it.
set -u
PROP=$1; PATCH=$2; SECS=${3:-8}
D=$(mktemp -d -p /var/tmp mutant-XXXXXX)
trap 'rm -rf "$D"' EXIT
rsync -a --exclude .git /repo/ "$D/repo/"
if [ "$PATCH" = "-" ]; then PATCH=$D/p.diff; cat > "$PATCH"; fi
(cd "$D/repo" && patch -p1 -s < "$PATCH") || { echo "patch failed"; exit 2; }
(cd "$D/repo" && GOFLAGS=-mod=mod GOPROXY=off GOSUMDB=off go build ./engine ./builder ./context ./internal/... ) || { echo "mutant does not build"; exit 2; }
cd /verif && VERIF_REPO="$D/repo" VERIF_SECS=$SECS VERIF_SCRATCH="$D" ./check "$PROP" --tier quick 2>&1 | grep -E "^(check|violation|VIOLATION|KNOWN)" | cut -c1-400 | head -${LINES_MAX:-12}
echo "exit=${PIPESTATUS[0]}"
