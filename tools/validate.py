#!/opt/veriftools/pyvenv/bin/python
import json, sys, glob, jsonschema, os
here=os.path.dirname(os.path.dirname(os.path.abspath(__file__)))
ms=json.load(open('/root/.vp/MANIFEST.schema.json')); es=json.load(open('/root/.vp/EVIDENCE.schema.json'))
m=json.load(open(here+'/MANIFEST.json')); jsonschema.validate(m, ms); print('MANIFEST ok')
bad=0
for c in m['checks']:
    f=os.path.join(here,c['evidence_file'])
    if not os.path.exists(f): print('missing', f); bad+=1; continue
    try:
        e=json.load(open(f)); jsonschema.validate(e, es)
        print(c['property_id'], 'ok', e['tier'], e['coverage']['evaluations'], e['coverage']['distinct_nontrivial'], e['wall_s'], 'viol', e.get('violations'))
    except Exception as ex:
        print(c['property_id'], 'INVALID', str(ex)[:200]); bad+=1
sys.exit(1 if bad else 0)
