#!/usr/bin/env python3
"""Regenerates MANIFEST.json from the table below (keeps it valid and in one place)."""
import json, os
HERE = os.path.dirname(os.path.dirname(os.path.abspath(__file__)))

TECH = "deterministic simulation with fault injection: seeded scheduler over instrumented sync/go/map-range, generated workloads and rule-fault plans, oracle over the recorded event history"
NOTE_COMMON = ("Trusted base: the simulator (verif/sim/simrt, simsync), the instrumenter's four generic rewrites, the reference model/oracle in verif/sim/h, the Go toolchain. "
               "Seeded sampling of schedules, map orders and fault plans - a clean batch is evidence, not proof. Pre-emption granularity: sync operations, observer calls, enabled statement-level P-sites, loop back edges, and the gap between the read and the write of a read-modify-write statement.")

CHECKS = {
 "C04": ("§4 C04", "Event history of every sorted call (bare engine and pool) is checked against the sort-model spec: one at a time, each once, non-increasing salience (tie-tolerant), continue/stop policy, error iff a rule failed, the returned error carries the first failure's marker. Faults are injected panics in rule bodies; map order at build time is a simulator choice; in 40 % of the engine runs the rule set evolves between calls through multi-rule incremental builds and removals; 30 % of the runs go through a pool with 1-4 concurrent clients. Rules fail in calls, return expressions, divisions, conditions (incl. string-valued reflect panics), nil-field reads and conc blocks; 3 % of the rule sets have 9-40 rules."),
 "C05": ("§4 C05", "Stage-barrier partial order, exactly-once, window and error policy of mix / inverse-mix / N-M (and selected forms) under simulator-chosen interleavings; a rule of a non-final stage is parked on a quiescence-released gate so that a missing join shows in every schedule. Failing subsets use every failure host of C04; large rule sets (up to 40, tie splits chosen from the observed start order when too many to enumerate)."),
 "C09": ("§4 C09", "Rule faults of 27 kinds x host constructs (incl. injected functions handed a wrong argument kind or too few arguments, failing stores inside conc blocks, failing else-if conditions and calls inside for bodies, a stray break, a loop whose body grows what it ranges over, stores through locals) are injected by per-call behaviour plans in all 21 execute methods; a panic leaving a call, a panic in a goroutine (process death), a deadlock or a hang are deterministic simulator verdicts; the surviving rules must still satisfy the model's spec and later calls must be unaffected. One run in five is a pool scenario with faulty requests and concurrent management calls (update, remove, clear, set-model), judged on containment only (deadlocks through lock misuse, incl. RWMutex writer preference, show there). 3 % of the runs are one long history (70-140 calls) of a single entry point on one engine, nearly every call with failing rules."),
 "C11": ("§4 C11", "After every call the result map is compared with the set of executions that reached a return in this call (9 return shapes incl. failing return expressions), across call sequences on one engine, all models."),
 "C12": ("§4 C12", "Selected variants: run set == named ∩ existing, promised order (sorted / as given / staged), must-fail-without-running preconditions (no existing name; N-M forms with unknown name or wrong count). A caller that passes its own names variable again passes the same slice object; 30 % of the runs go through a pool, incl. its own-model selected entry point."),
 "C13": ("§4 C13", "DAG model: layer barriers under chosen interleavings with gated rules, once per occurrence, unknown names skipped, failure stops later layers, error iff failure; 0-9 layers of width 0-8, and layers as wide as a 40-rule set."),
 "C14": ("§4 C14", "Stop-tag variants: nothing starts after the rule that set the tag (sorted forms) / after a tag set by the first rule (mix form); tag never set => the untagged variant's spec, and (differential twin) a stop-tag call in which nothing touches the tag must execute exactly what the same call through the untagged entry point executes on an identically prepared engine. A fifth of the calls on one engine reuse the previous call's Stag as it was left; such a call is judged on one thing only: once one of its rules has set the tag no further rule starts."),
 "C15": ("§4 C15", "Locals: value assigned by one execution is read back unchanged although every rule uses the same local name and executions overlap (DAG duplicates, concurrent models); reader rules (looking for any of eleven local names that other rules of the set assign: plain locals, conc-assigned locals, objects, structs) must fail with not-found in every position and call; locals copied from injected slots and updated in place must not write through; a plain name injected in some calls only is a local in the others and shared (visible to the caller) where injected; counting loops with a scheduling point in the body keep their own counter; a rule that cannot fail and stops where it reads its own local back lost it."),
 "C06": ("§4 C06", "Pool request isolation under chosen interleavings of 1-5 clients on pools (1,2)...(3,5): every value a rule reads (Req.ID, optional Opt key) or returns is derived from its own request, a request that did not inject Opt must fail to read it whoever used the instance before, result maps and request objects are unchanged after return, no event of a request after it returned; a local left by an earlier request is not visible to a later one. In a quarter of the runs the pool first goes through a management history (clear/update, remove-all/incremental, ...) that ends in the initial rule set; half of the requests inject a function value and an optional object, the others must fail to use them; a by-value entry of the pool's api map must never show another request's value; rule sets needing optional names only are also served through the two-object entry point."),
 "C07": ("§4 C07", "Admin tasks (and rules themselves) perform full / incremental / removal updates while clients execute through all pool methods; the oracle searches a serialisation of the successful updates, consistent with their real-time order, under which every execution ran exactly one installed version that is admissible for its invoke/return times (the property's own conditions, not linearizability)."),
 "C08": ("§4 C08", "Histories of 1-12 BuildRuleFromString / BuildRuleWithIncremental / RemoveRules operations with simulator-chosen map iteration order; after every operation the sort model's (rule, version, @sal) sequence and IsExist are compared with a 30-line set model; failed operations must change nothing."),
 "C10": ("§4 C10", "Compile faults inside operation histories: each generated text (valid, broken, duplicate name, token-mutated, stray bytes, blank) goes to all five compile entry points from equal states; no panic, identical accept/reject verdicts, reject => installed set unchanged, accept => model successor (or identical sets across twin entry points when validity is unknown). A builder/pool twin pair additionally receives the same mixed full / incremental / removal / clear history, and earlier texts are resubmitted verbatim. The all-byte-strings quantifier is sampled (incl. random byte strings), not enumerated."),
 "C16": ("§4 C16", "One task alternates pool management operations (full/incremental/remove/clear/set-model, valid and invalid) with all queries and with probe rounds that hold max simultaneous requests inside their first rule, so every engine instance (initial and additional) executes after every operation; queries and executions are compared with the pool reference model."),
 "C17": ("§4 C17", "Invariants over the event history of pools of sizes (1,1)..(3,5) and, in 4 % of the runs, above one 64-bit word ((2,66), (60,70), (65,66), (30,33)): <= max requests inside rules at any event; a request arriving while max requests are held waits (neither runs nor returns) until a hold is released; after any mix of normal, failing and panicking requests a final round of max simultaneous held requests gets all of them inside at once; the waiter round releases one held request first (staged release) and the waiter must get exactly that instance; a lost instance or a busy wait shows as a hang verdict under bounded-fair schedules (loop back edges are scheduling points); two in-flight requests on one instance show through the isolation clauses; in part of the runs an admin task clears / updates the pool concurrently and the rules are re-installed before the final round; 3 % of the waiter rounds have 260-300 requests waiting at once; requests fail in every way C09 knows (incl. functions handed ill-typed arguments)."),
 "C19": ("§4 C19, §2.6", "The concurrency scenarios of C05/C06/C07/C13/C17/C18 plus clear/set-model concurrent with requests, built with -race; the simulator's hand-off is hidden from the detector (RaceDisable around channel operations, simulated sync mirrored on real primitives) so it sees exactly the program's own happens-before relation on simulator-chosen, replayable schedules. A report is a violation when at least one access is attributed to a gengine frame (not to reflect-on-user-objects or the harness)."),
 "C18": ("§4 C18", "conc blocks: each child once, parent resumes only after every child event, next statement sees all assigned locals/fields, a failing child fails the block after all children ended; children parked on gates make a missing join visible in every schedule. Blocks of up to 31 statements of all four forms, children overwriting locals declared before the block, a child whose own store fails (not a called method)."),
}

def main():
    checks = []
    for pid, (ref, text) in sorted(CHECKS.items()):
        checks.append({
            "property_id": pid,
            "quick_cmd": "./check %s --tier quick" % pid,
            "thorough_cmd": "./check %s --tier thorough" % pid,
            "evidence_file": "evidence/%s.json" % pid,
            "replay_cmd_template": "./check %s --replay {path}" % pid,
            "engine": "gengine-dsim",
            "level_claimed": {"category": "exploration", "text": text, "design_ref": ref},
            "level_note": NOTE_COMMON,
            "technique": TECH,
        })
    na = [
        {"property_id": "C01", "reason": "pure function of (expression, operand values): no schedule, clock, fault, I/O or history for a simulator to control; deterministic simulation has nothing to decide (DESIGN §4)"},
        {"property_id": "C02", "reason": "pure function of (rule program, input): sequential interpreter control flow with no concurrency, time or fault dimension (DESIGN §4)"},
        {"property_id": "C03", "reason": "pure function of (rule program, injected data): reads/writes/calls through reflection on one goroutine; nothing nondeterministic to simulate (DESIGN §4)"},
        {"property_id": "C20", "reason": "pure function of (rule text, fault position) to an error string; no schedule/fault/history dimension (DESIGN §4)"},
    ]
    claimed = set(CHECKS)
    for pid in []:
        if pid not in claimed:
            na.append({"property_id": pid, "reason": "check under construction in this session (W2/W3 workloads); not claimed until its check exists and passes on the unchanged tree"})
    m = {
        "version": 1,
        "setup_cmd": "./setup.sh",
        "hooks": {
            "guard": "none: no hook is committed to /repo; every check instruments a scratch copy of /repo's working tree at run time (DESIGN §2.1)",
            "enable": "./check <id> copies /repo's working tree to a scratch dir, rewrites import \"sync\", go statements, map ranges and splices P-sites (line-preserving), then builds verif/sim against it with -modfile",
            "baseline_off_cmd": "cd /repo && GOFLAGS=-mod=mod GOPROXY=off GOSUMDB=off go test -mod=mod -json -vet=off -count=1 -timeout 25m ./...",
            "source_commits": [],
            "add_only": True,
        },
        "engines": [{"name": "gengine-dsim", "path": "sim/", "serves_properties": sorted(claimed), "kind_free_text": "own deterministic scheduler + instrumenter (Go); seeded search, replay files, minimiser"}],
        "checks": checks,
        "not_applicable": na,
        "notes": "fix: commits in /repo repair genuine defects found by these checks (known_findings.json, DESIGN §5). ./check selftest proves simulator determinism across GOMAXPROCS.",
    }
    with open(os.path.join(HERE, "MANIFEST.json"), "w") as f:
        json.dump(m, f, indent=1)
        f.write("\n")

if __name__ == "__main__":
    main()
