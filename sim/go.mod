module verif/sim

go 1.23

require github.com/bilibili/gengine v0.0.0

// The checks never build against this replace: ./check writes a scratch
// mod file (passed with -modfile) whose replace points at the freshly
// instrumented copy of /repo's working tree.  This line only keeps editors
// and `go vet` usable.
replace github.com/bilibili/gengine => /repo
