package main

import (
	"fmt"

	"github.com/bilibili/gengine/builder"
	"github.com/bilibili/gengine/context"
	"github.com/bilibili/gengine/engine"
	"verif/sim/simrt"
)

type H struct{ req int64 }

func (h *H) S(r, v int64) { simrt.Emit(1, h.req, r, v) }
func (h *H) E(r, v int64) { simrt.Emit(2, h.req, r, v) }
func (h *H) F(r int64) int64 {
	simrt.Emit(3, h.req, r, 0)
	if r == 2 {
		panic("boom-r2")
	}
	return 0
}

const rules = `
rule "1" "d" salience 3
begin
H.S(1,1)
H.F(1)
H.E(1,1)
return 1001
end
rule "2" "d" salience 2
begin
H.S(2,1)
H.F(2)
H.E(2,1)
end
rule "3" "d" salience 1
begin
H.S(3,1)
conc { a = H.F(3)  b = H.F(3) }
H.E(3,1)
return a + b
end
`

func main() {
	for sd := 0; sd < 5; sd++ {
		dc := context.NewDataContext()
		rb := builder.NewRuleBuilder(dc)
		if err := rb.BuildRuleFromString(rules); err != nil {
			panic(err)
		}
		g := engine.NewGengine()
		cfg := simrt.Config{Strategy: simrt.StratSticky, StickPermil: 500, ShuffleMaps: true, Trace: sd == 0}
		r := simrt.NewRun(cfg, simrt.NewSource(uint64(sd), 1))
		var err error
		var res map[string]interface{}
		r.Execute(func() {
			dc.Add("H", &H{req: 7})
			err = g.ExecuteConcurrent(rb)
			res, _ = g.GetRulesResultMap()
			simrt.Emit(9, 7, 0, 0)
		})
		fmt.Printf("seed %d end=%s steps=%d dec=%d sw=%d hash=%x err=%v res=%v\n", sd, simrt.EndNames[r.End], r.St.Steps, r.St.Decisions, r.St.Switches, r.TraceHash, err != nil, res)
		s := ""
		for _, e := range r.Events {
			s += fmt.Sprintf("t%d:%d(%d) ", e.Task, e.Kind, e.B)
		}
		fmt.Println("  ", s)
	}
}
