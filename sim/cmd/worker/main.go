// worker runs simulated executions of one property's workload in one OS
// process (the simulator has one global "current task" word).
//
//	worker -prop C05 -seed 1 -worker 3 -runs 100000 -secs 30 -out dir   search
//	worker -replay file.json                                           re-execute a replay file
//	worker -minimise file.json -budget 20 -o min.json                  shrink a failure
//	worker -prop C05 -seed 1 -runs 50 -dump                            print per-run hashes (determinism self-test)
package main

import (
	"encoding/binary"
	"encoding/json"
	"flag"
	"fmt"
	"hash/fnv"
	"io"
	"log"
	"os"
	"path/filepath"
	"sort"
	"strings"
	"time"

	"verif/sim/h"
	"verif/sim/simrt"
)

type Replay struct {
	Property   string        `json:"property"`
	Signature  string        `json:"signature"`
	Seed       uint64        `json:"seed"`
	Worker     int           `json:"worker"`
	Run        int           `json:"run"`
	Minimised  bool          `json:"minimised"`
	Plan       []uint32      `json:"plan"`
	Sched      []uint32      `json:"sched"`
	TraceHash  string        `json:"trace_hash"`
	EventHash  string        `json:"event_hash"`
	Violations []h.Violation `json:"violations"`
	Workload   []string      `json:"workload"`
	Schedule   []string      `json:"schedule_trace"`
	EventLog   []string      `json:"event_log"`
	Race       []string      `json:"race_reports,omitempty"`
	// WarmRuns > 0: the failure depends on state the code under test keeps across runs (package-level
	// caches, pools); replay first re-executes runs WarmStart..WarmStart+WarmRuns-1 of the same seed and worker
	Deep      bool `json:"deep,omitempty"` // generated with the thorough tier's larger bounds
	Unstable  bool `json:"not_exactly_repeatable,omitempty"` // a task blocked in a primitive outside the simulator (channel, sleep)
	WarmStart int `json:"warm_start,omitempty"`
	WarmRuns  int `json:"warm_runs,omitempty"`
}

type Summary struct {
	Property   string           `json:"property"`
	Worker     int              `json:"worker"`
	Seed       uint64           `json:"seed"`
	Runs       int              `json:"runs"`
	NonTrivial int              `json:"nontrivial_runs"`
	Steps      int64            `json:"steps"`
	Decisions  int64            `json:"decisions"`
	Switches   int64            `json:"switches"`
	Events     int64            `json:"events"`
	Spawns     int64            `json:"spawns"`
	Counters   map[string]int64 `json:"counters"`
	OtherSigs  map[string]int   `json:"other_clause_observations"`
	Sigs       map[string]int   `json:"violation_signatures"`
	FailFiles  map[string]string `json:"fail_files"`
	Samples    [][]string       `json:"samples"`
	WallS      float64          `json:"wall_s"`
	Infra      string           `json:"infra,omitempty"`
	EndCounts  map[string]int   `json:"run_end_counts"`
	SlowRun    int              `json:"slowest_run"`
	SlowMs     int64            `json:"slowest_run_ms"`
}

var siteNames = map[int64]string{}

func sitesCount(path string) int {
	if path == "" {
		return 0
	}
	b, err := os.ReadFile(path)
	if err != nil {
		return 0
	}
	var v struct {
		PSites int `json:"p_sites"`
		Sites  []struct {
			ID   int64  `json:"id"`
			File string `json:"file"`
			Line int    `json:"line"`
			Func string `json:"func"`
		} `json:"sites"`
	}
	if json.Unmarshal(b, &v) != nil {
		return 0
	}
	for _, s := range v.Sites {
		siteNames[s.ID] = fmt.Sprintf("%s:%d (%s)", s.File, s.Line, s.Func)
	}
	return v.PSites
}

func hashStr(s string) uint64 {
	f := fnv.New64a()
	f.Write([]byte(s))
	return f.Sum64()
}

func sources(prop string, seed uint64, worker, run int) (*simrt.Source, *simrt.Source) {
	base := hashStr(fmt.Sprintf("%s/%d/%d/%d", prop, seed, worker, run))
	return simrt.NewSource(base, 0x706c616e), simrt.NewSource(base, 0x7363686564)
}

func filter(p *h.PropDef, o *h.RunOut) (mine, other []h.Violation) {
	for _, v := range o.Violations {
		if p.Clauses == nil || p.Clauses[v.Clause] {
			mine = append(mine, v)
		} else {
			other = append(other, v)
		}
	}
	return
}

func sigOf(prop string, v h.Violation) string { return prop + "/" + v.Sig() }

func mkReplay(prop string, seed uint64, worker, run int, o *h.RunOut, mine []h.Violation, sig string) *Replay {
	r := &Replay{Property: prop, Signature: sig, Seed: seed, Worker: worker, Run: run, Plan: o.PlanRec, Sched: o.SchedRec,
		TraceHash: fmt.Sprintf("%016x", o.TraceHash), EventHash: fmt.Sprintf("%016x", o.EventHash), Violations: mine}
	if o.Describe != nil {
		r.Workload = o.Describe()
	}
	for i, t := range o.Trace {
		if i >= 4000 {
			r.Schedule = append(r.Schedule, fmt.Sprintf("... %d more steps", len(o.Trace)-i))
			break
		}
		line := fmt.Sprintf("step %d task %d %s %d %d", t.Step, t.Task, simrt.OpName(t.Op), t.A, t.B)
		if simrt.OpName(t.Op) == "yield" && t.A > 0 {
			line += "  pre-empted before " + siteNames[t.A]
		}
		r.Schedule = append(r.Schedule, line)
	}
	for i, e := range o.Events {
		if i >= 2000 {
			break
		}
		r.EventLog = append(r.EventLog, fmt.Sprintf("#%d step %d task %d kind %d call %d rule %d c %d", e.Seq, e.Step, e.Task, e.Kind, e.A, e.B, e.C))
	}
	return r
}

func writeJSON(path string, v interface{}) error {
	b, err := json.MarshalIndent(v, "", " ")
	if err != nil {
		return err
	}
	return os.WriteFile(path, b, 0o644)
}

func main() {
	prop := flag.String("prop", "", "property id")
	seed := flag.Uint64("seed", 1, "VERIF_SEED")
	worker := flag.Int("worker", 0, "worker index")
	runs := flag.Int("runs", 1000, "max runs")
	start := flag.Int("start", 0, "first run index")
	secs := flag.Float64("secs", 30, "wall-clock budget")
	out := flag.String("out", "", "output directory (summary, hashes, failures)")
	sites := flag.String("sites", "", ".vsites.json of the instrumented copy")
	replay := flag.String("replay", "", "replay file to re-execute")
	minimise := flag.String("minimise", "", "failure file to shrink")
	budget := flag.Float64("budget", 20, "minimiser budget in seconds")
	outFile := flag.String("o", "", "output file for -minimise")
	dump := flag.Bool("dump", false, "print per-run hashes")
	maxFail := flag.Int("maxfail", 6, "distinct signatures to keep per worker")
	raceLog := flag.String("racelog", "", "GORACE log_path prefix (race builds)")
	deepFlag := flag.Bool("deep", false, "thorough tier: larger histories")
	flag.Parse()
	h.NSites = sitesCount(*sites)
	h.Deep = *deepFlag
	h.RaceLog = *raceLog
	h.RaceMode = simrt.RaceBuild && *raceLog != ""
	log.SetOutput(io.Discard) // gengine logs unknown rule names through the std logger

	if *replay != "" {
		os.Exit(doReplay(*replay))
	}
	if *minimise != "" {
		os.Exit(doMinimise(*minimise, *outFile, *budget))
	}
	p := h.Props[*prop]
	if p == nil {
		fmt.Fprintf(os.Stderr, "worker: unknown property %q\n", *prop)
		os.Exit(2)
	}
	sum := &Summary{Property: *prop, Worker: *worker, Seed: *seed, Counters: map[string]int64{}, OtherSigs: map[string]int{}, Sigs: map[string]int{},
		FailFiles: map[string]string{}, EndCounts: map[string]int{}}
	t0 := time.Now()
	var hashes []uint64
	for i := *start; i < *start+*runs; i++ {
		if time.Since(t0).Seconds() > *secs {
			break
		}
		plan, sched := sources(*prop, *seed, *worker, i)
		tRun := time.Now()
		o := p.Run(plan, sched, false)
		if ms := time.Since(tRun).Milliseconds(); ms > sum.SlowMs {
			sum.SlowMs, sum.SlowRun = ms, i
		}
		if o.Infra == "too many tasks" {
			// the generated scenario outgrew the simulator's task table: the run is dropped unjudged and counted
			sum.Counters["runs_dropped/too_many_tasks"]++
			continue
		}
		if o.Infra != "" {
			sum.Infra = fmt.Sprintf("run %d: %s", i, o.Infra)
			break
		}
		sum.Runs++
		sum.Steps += o.St.Steps
		sum.Decisions += o.St.Decisions
		sum.Switches += o.St.Switches
		sum.Spawns += o.St.Spawns
		sum.Events += int64(o.NEvents)
		sum.EndCounts[simrt.EndNames[o.End]]++
		for k, n := range o.Counters {
			sum.Counters[k] += n
		}
		if o.NonTrivial {
			sum.NonTrivial++
			hashes = append(hashes, o.EventHash)
		}
		if *dump {
			fmt.Printf("run %d trace %016x events %016x steps %d nev %d end %s\n", i, o.TraceHash, o.EventHash, o.St.Steps, o.NEvents, simrt.EndNames[o.End])
		}
		if len(sum.Samples) < 2 && o.NonTrivial && o.Describe != nil && i%7 == 3 {
			d := o.Describe()
			if len(d) > 60 {
				d = d[:60]
			}
			sum.Samples = append(sum.Samples, d)
		}
		mine, other := filter(p, o)
		for _, v := range other {
			sum.OtherSigs[v.Sig()]++
		}
		seen := map[string]bool{}
		for _, v := range mine {
			s := sigOf(*prop, v)
			if seen[s] {
				continue
			}
			seen[s] = true
			sum.Sigs[s]++
			if _, have := sum.FailFiles[s]; !have && len(sum.FailFiles) < *maxFail && *out != "" {
				o2 := o
				warm := false
				if !p.Race && !o.Unstable {
					// re-run with tracing for the replay file (a race is reported once per process, so race runs are not repeated here)
					pl, sc := simrt.ReplaySource(o.PlanRec), simrt.ReplaySource(o.SchedRec)
					o2 = p.Run(pl, sc, true)
					m2, _ := filter(p, o2)
					ok := false
					for _, w := range m2 {
						if sigOf(*prop, w) == s {
							ok = true
						}
					}
					if !ok {
						// the violation was observed on real code but an immediate re-execution of the same choices
						// behaves differently: the code under test carries state from run to run.  Keep the
						// original observation and make the replay file re-execute this worker's earlier runs first.
						sum.Counters["replay_needs_warm_process"]++
						o2 = o
						warm = true
					}
					if o2.TraceHash != o.TraceHash {
						// same violation, different execution: the code under test keeps state across runs
						// (a package-level cache, pool, ...) - the violation stands, the replay may need a warm process
						sum.Counters["replay_not_identical_process_global_state"]++
					}
				}
				m2, _ := filter(p, o2)
				var vs []h.Violation
				for _, w := range m2 {
					if sigOf(*prop, w) == s {
						vs = append(vs, w)
					}
				}
				f := filepath.Join(*out, fmt.Sprintf("fail-w%d-r%d-%016x.json", *worker, i, hashStr(s)))
				rp := mkReplay(*prop, *seed, *worker, i, o2, vs, s)
				rp.Unstable = o.Unstable
				rp.Deep = h.Deep
				if warm {
					rp.WarmStart, rp.WarmRuns = *start, i-*start
				}
				if err := writeJSON(f, rp); err != nil {
					sum.Infra = err.Error()
				}
				sum.FailFiles[s] = f
			}
		}
		if sum.Infra != "" {
			break
		}
	}
	sum.WallS = time.Since(t0).Seconds()
	if *out != "" {
		hb := make([]byte, 8*len(hashes))
		for i, x := range hashes {
			binary.LittleEndian.PutUint64(hb[8*i:], x)
		}
		os.WriteFile(filepath.Join(*out, fmt.Sprintf("hashes-w%d.bin", *worker)), hb, 0o644)
		writeJSON(filepath.Join(*out, fmt.Sprintf("summary-w%d.json", *worker)), sum)
	} else if !*dump {
		b, _ := json.MarshalIndent(sum, "", " ")
		fmt.Println(string(b))
	}
	if sum.Infra != "" {
		fmt.Fprintln(os.Stderr, "worker: INFRA:", sum.Infra)
		os.Exit(2)
	}
}

func loadReplay(path string) (*Replay, *h.PropDef, error) {
	b, err := os.ReadFile(path)
	if err != nil {
		return nil, nil, err
	}
	var r Replay
	if err := json.Unmarshal(b, &r); err != nil {
		return nil, nil, err
	}
	p := h.Props[r.Property]
	if p == nil {
		return nil, nil, fmt.Errorf("unknown property %q", r.Property)
	}
	return &r, p, nil
}

// doReplay re-executes a replay file.  exit 1: the recorded signature reproduced;
// 0: the run is clean (e.g. after a fix); 3: the execution diverged from the
// recorded one and nothing can be said; 2: infrastructure.
func doReplay(path string) int {
	r, p, err := loadReplay(path)
	if err != nil {
		fmt.Fprintln(os.Stderr, "worker:", err)
		return 2
	}
	h.Deep = r.Deep
	for j := r.WarmStart; j < r.WarmStart+r.WarmRuns; j++ {
		pl, sc := sources(r.Property, r.Seed, r.Worker, j)
		p.Run(pl, sc, false)
	}
	o := p.Run(simrt.ReplaySource(r.Plan), simrt.ReplaySource(r.Sched), true)
	if o.Infra != "" {
		fmt.Fprintln(os.Stderr, "worker: INFRA:", o.Infra)
		return 2
	}
	mine, _ := filter(p, o)
	repro := false
	for _, v := range mine {
		s := sigOf(r.Property, v)
		fmt.Printf("violation %s: %s\n", s, v.Msg)
		if s == r.Signature {
			repro = true
		}
	}
	same := fmt.Sprintf("%016x", o.TraceHash) == r.TraceHash && fmt.Sprintf("%016x", o.EventHash) == r.EventHash
	fmt.Printf("replay: signature_reproduced=%v identical_execution=%v trace=%016x events=%016x steps=%d end=%s\n", repro, same, o.TraceHash, o.EventHash, o.St.Steps, simrt.EndNames[o.End])
	if repro {
		return 1
	}
	if len(mine) > 0 {
		return 1
	}
	return 0
}

// ---- minimiser ------------------------------------------------------------------

type cand struct{ plan, sched []uint32 }

func doMinimise(path, outPath string, budget float64) int {
	r, p, err := loadReplay(path)
	if err != nil {
		fmt.Fprintln(os.Stderr, "worker:", err)
		return 2
	}
	h.Deep = r.Deep
	deadline := time.Now().Add(time.Duration(budget * float64(time.Second)))
	tries := 0
	try := func(c cand) (cand, bool) {
		tries++
		o := p.Run(simrt.ReplaySource(c.plan), simrt.ReplaySource(c.sched), false)
		if o.Infra != "" {
			return c, false
		}
		mine, _ := filter(p, o)
		for _, v := range mine {
			if sigOf(r.Property, v) == r.Signature {
				// normalise to what was actually consumed
				return cand{trimZeros(o.PlanRec), trimZeros(o.SchedRec)}, true
			}
		}
		return c, false
	}
	if r.WarmRuns > 0 || r.Unstable {
		fmt.Fprintln(os.Stderr, "worker: the failure needs a warm process or is not exactly repeatable; not minimised")
		return 3
	}
	cur, ok := try(cand{r.Plan, r.Sched})
	if !ok {
		fmt.Fprintln(os.Stderr, "worker: the failure does not reproduce; nothing to minimise")
		return 3
	}
	size := func(c cand) int { return len(c.plan)*4 + len(c.sched) + nonzero(c.plan)*8 + nonzero(c.sched)*2 }
	shrinkList := func(get func(c cand) []uint32, put func(c cand, l []uint32) cand) {
		// 1. truncate the tail (exhausted => 0)
		for n := len(get(cur)) / 2; n >= 1 && time.Now().Before(deadline); {
			l := get(cur)
			if len(l) <= 1 {
				break
			}
			cut := len(l) - n
			if cut < 0 {
				cut = 0
			}
			if c2, ok := try(put(cur, append([]uint32(nil), l[:cut]...))); ok && size(c2) < size(cur) {
				cur = c2
				if n > len(get(cur)) {
					n = len(get(cur))
				}
			} else {
				n /= 2
			}
		}
		// 2. delete chunks, 3. zero chunks
		for _, mode := range []int{0, 1} {
			for n := len(get(cur)) / 2; n >= 1 && time.Now().Before(deadline); n /= 2 {
				for i := 0; i+n <= len(get(cur)) && time.Now().Before(deadline); {
					l := get(cur)
					var nl []uint32
					if mode == 0 {
						nl = append(append([]uint32(nil), l[:i]...), l[i+n:]...)
					} else {
						nl = append([]uint32(nil), l...)
						allZero := true
						for j := i; j < i+n; j++ {
							if nl[j] != 0 {
								allZero = false
							}
							nl[j] = 0
						}
						if allZero {
							i += n
							continue
						}
					}
					if c2, ok := try(put(cur, nl)); ok && size(c2) < size(cur) {
						cur = c2
					} else {
						i += n
					}
				}
			}
		}
		// 4. lower single entries
		for i := 0; i < len(get(cur)) && time.Now().Before(deadline); i++ {
			l := get(cur)
			if l[i] == 0 {
				continue
			}
			for _, nv := range []uint32{0, l[i] / 2, l[i] - 1} {
				if nv >= l[i] {
					continue
				}
				nl := append([]uint32(nil), l...)
				nl[i] = nv
				if c2, ok := try(put(cur, nl)); ok && size(c2) < size(cur) {
					cur = c2
					break
				}
			}
		}
	}
	for round := 0; round < 3 && time.Now().Before(deadline); round++ {
		before := size(cur)
		shrinkList(func(c cand) []uint32 { return c.plan }, func(c cand, l []uint32) cand { return cand{l, c.sched} })
		shrinkList(func(c cand) []uint32 { return c.sched }, func(c cand, l []uint32) cand { return cand{c.plan, l} })
		if size(cur) >= before {
			break
		}
	}
	o := p.Run(simrt.ReplaySource(cur.plan), simrt.ReplaySource(cur.sched), true)
	mine, _ := filter(p, o)
	var vs []h.Violation
	for _, v := range mine {
		if sigOf(r.Property, v) == r.Signature {
			vs = append(vs, v)
		}
	}
	if len(vs) == 0 {
		fmt.Fprintln(os.Stderr, "worker: minimised candidate stopped reproducing (simulator nondeterminism?)")
		return 2
	}
	nr := mkReplay(r.Property, r.Seed, r.Worker, r.Run, o, vs, r.Signature)
	nr.Minimised = true
	nr.Deep = r.Deep
	nr.Race = r.Race
	if outPath == "" {
		outPath = path
	}
	if err := writeJSON(outPath, nr); err != nil {
		fmt.Fprintln(os.Stderr, "worker:", err)
		return 2
	}
	fmt.Printf("minimised %s: plan %d->%d entries (%d non-zero), schedule %d->%d entries (%d non-zero), %d candidates\n", r.Signature,
		len(r.Plan), len(nr.Plan), nonzero(nr.Plan), len(r.Sched), len(nr.Sched), nonzero(nr.Sched), tries)
	return 0
}

func nonzero(l []uint32) int {
	n := 0
	for _, x := range l {
		if x != 0 {
			n++
		}
	}
	return n
}

func trimZeros(l []uint32) []uint32 {
	n := len(l)
	for n > 0 && l[n-1] == 0 {
		n--
	}
	return append([]uint32(nil), l[:n]...)
}

var _ = sort.Strings
var _ = strings.Join
