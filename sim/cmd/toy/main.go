// toy exercises simrt/simsync without gengine: determinism of the trace hash
// and transparency of the hidden hand-off for the race detector.
package main

import (
	"flag"
	"fmt"
	"os"

	"verif/sim/simrt"
	sync "verif/sim/simsync"
)

type shared struct {
	mu       sync.Mutex
	prot     int
	unprot   int
	wg       sync.WaitGroup
	m        map[string]int
	rw       sync.RWMutex
	useUnpro bool
}

func scenario(s *shared, n int) func() {
	return func() {
		s.wg.Add(n)
		for i := 0; i < n; i++ {
			i := i
			simrt.Go(func() {
				for k := 0; k < 3; k++ {
					s.mu.Lock()
					s.prot++
					s.mu.Unlock()
					if s.useUnpro {
						s.unprot++
					}
					simrt.Emit(1, int64(i), int64(k), 0)
					if i == 0 && k == 1 {
						simrt.Gate(7)
					}
					if i == 1 && k == 2 {
						simrt.Open(7)
					}
					s.rw.RLock()
					_ = s.m["a"]
					s.rw.RUnlock()
				}
				for _, k := range simrt.KeysStr(s.m) {
					_ = k
				}
				s.wg.Done()
			})
		}
		s.wg.Wait()
		simrt.Emit(2, int64(s.prot), 0, 0)
	}
}

func main() {
	seeds := flag.Int("seeds", 20, "")
	unprot := flag.Bool("unprot", false, "also do unprotected increments (race expected under -race)")
	strat := flag.Int("strat", 1, "")
	flag.Parse()
	var all uint64
	for sd := 0; sd < *seeds; sd++ {
		cfg := simrt.Config{Strategy: *strat % 3, StickPermil: 500, ShuffleMaps: true}
		if sd%3 == 0 {
			cfg.Strategy = simrt.StratUniform
		}
		r := simrt.NewRun(cfg, simrt.NewSource(uint64(sd), 77))
		s := &shared{m: map[string]int{"a": 1, "b": 2, "c": 3, "d": 4}, useUnpro: *unprot}
		r.Execute(scenario(s, 4))
		if r.End != simrt.EndOK {
			fmt.Println("END", simrt.EndNames[r.End], r.EndInfo)
			os.Exit(3)
		}
		if s.prot != 12 {
			fmt.Println("BAD prot", s.prot)
			os.Exit(3)
		}
		eh := uint64(0)
		for _, e := range r.Events {
			eh = eh*1315423911 ^ uint64(e.Task)<<20 ^ uint64(e.A)<<8 ^ uint64(e.B)
		}
		fmt.Printf("seed %d steps %d dec %d sw %d hash %x ev %x shuffles %d/%d\n", sd, r.St.Steps, r.St.Decisions, r.St.Switches, r.TraceHash, eh, r.St.MapShuffles, r.St.MapRanges)
		all ^= r.TraceHash * uint64(sd+1)
	}
	fmt.Printf("ALL %x\n", all)
}
