// Package simsync replaces package sync in the instrumented copy of gengine.
//
// Mutex, RWMutex and WaitGroup first wait in the simulator (the scheduler
// knows exactly who is blocked on what) and then perform the same operation
// on an embedded real primitive, which can no longer block.  The mirroring
// keeps the Go memory model honest and lets the race detector see exactly the
// happens-before relation of the original program (DESIGN §2.3, §2.6).
// Outside a simulation the wrappers degrade to the real primitives.
package simsync

import (
	"sync"

	"verif/sim/simrt"
)

type (
	Once   = sync.Once
	Map    = sync.Map
	Cond   = sync.Cond
	Locker = sync.Locker
)

// Pool is a deterministic sync.Pool: a LIFO stack.  The real one hands items
// out per P, i.e. depending on where the runtime happened to run a goroutine,
// which would make executions unrepeatable; any Put item may legally be
// returned by any Get, so a stack is one of the real pool's behaviours.
type Pool struct {
	New   func() interface{}
	mu    sync.Mutex
	items []interface{}
}

func (p *Pool) Get() interface{} {
	p.mu.Lock()
	if n := len(p.items); n > 0 {
		x := p.items[n-1]
		p.items = p.items[:n-1]
		p.mu.Unlock()
		return x
	}
	p.mu.Unlock()
	if p.New != nil {
		return p.New()
	}
	return nil
}

func (p *Pool) Put(x interface{}) {
	if x == nil {
		return
	}
	p.mu.Lock()
	p.items = append(p.items, x)
	p.mu.Unlock()
}

// NewCond mirrors sync.NewCond.
func NewCond(l Locker) *Cond { return sync.NewCond(l) }

type ident struct {
	id  int64
	gen uint32
}

//go:norace
func (i *ident) get() int64 {
	if g := simrt.Gen(); i.gen != g || i.id == 0 {
		i.gen = g
		i.id = simrt.NewObj()
		return -i.id // negative: first use in this run (shadow state must be reset)
	}
	return i.id
}

// Mutex is a simulated sync.Mutex.
type Mutex struct {
	mu   sync.Mutex
	i    ident
	held bool
}

//go:norace
func (m *Mutex) oid() int64 {
	id := m.i.get()
	if id < 0 {
		id = -id
		m.held = false
	}
	return id
}

//go:norace
func (m *Mutex) setHeld(b bool) bool { old := m.held; m.held = b; return old }

func (m *Mutex) Lock() {
	if !simrt.Active() {
		m.mu.Lock()
		return
	}
	id := m.oid()
	simrt.Lock(id)
	m.setHeld(true)
	if !m.mu.TryLock() {
		simrt.Fatal(9, id) // simulator inconsistency: real mutex held although the simulated one was free
	}
}

func (m *Mutex) Unlock() {
	if !simrt.Active() {
		m.mu.Unlock()
		return
	}
	id := m.oid()
	if !m.setHeld(false) {
		simrt.Fatal(2, id) // sync: unlock of unlocked mutex
	}
	m.mu.Unlock()
	simrt.Unlock(id)
}

func (m *Mutex) TryLock() bool {
	if !simrt.Active() {
		return m.mu.TryLock()
	}
	m.oid()
	simrt.Yield()
	if m.held {
		return false
	}
	m.Lock()
	return true
}

// RWMutex is a simulated sync.RWMutex, writer preference included: a reader
// arriving after a writer has called Lock waits until that writer is done (so a
// re-entrant RLock with a writer queued in between deadlocks, as it really does).
type RWMutex struct {
	mu      sync.RWMutex
	i       ident
	w       bool
	readers int
}

//go:norace
func (m *RWMutex) oid() int64 {
	id := m.i.get()
	if id < 0 {
		id = -id
		m.w = false
		m.readers = 0
	}
	return id
}

//go:norace
func (m *RWMutex) setW(b bool) bool { old := m.w; m.w = b; return old }

//go:norace
func (m *RWMutex) addR(d int) int { m.readers += d; return m.readers }

func (m *RWMutex) Lock() {
	if !simrt.Active() {
		m.mu.Lock()
		return
	}
	id := m.oid()
	simrt.Lock(id)
	m.setW(true)
	if !m.mu.TryLock() {
		simrt.Fatal(9, id)
	}
}

func (m *RWMutex) Unlock() {
	if !simrt.Active() {
		m.mu.Unlock()
		return
	}
	id := m.oid()
	if !m.setW(false) {
		simrt.Fatal(3, id) // sync: Unlock of unlocked RWMutex
	}
	m.mu.Unlock()
	simrt.Unlock(id)
}

func (m *RWMutex) RLock() {
	if !simrt.Active() {
		m.mu.RLock()
		return
	}
	id := m.oid()
	simrt.RLock(id)
	m.addR(1)
	if !m.mu.TryRLock() {
		simrt.Fatal(9, id)
	}
}

func (m *RWMutex) RUnlock() {
	if !simrt.Active() {
		m.mu.RUnlock()
		return
	}
	id := m.oid()
	if m.addR(-1) < 0 {
		simrt.Fatal(4, id) // sync: RUnlock of unlocked RWMutex
	}
	m.mu.RUnlock()
	simrt.RUnlock(id)
}

// RLocker mirrors sync.RWMutex.RLocker.
func (m *RWMutex) RLocker() Locker { return (*rlocker)(m) }

type rlocker RWMutex

func (r *rlocker) Lock()   { (*RWMutex)(r).RLock() }
func (r *rlocker) Unlock() { (*RWMutex)(r).RUnlock() }

// WaitGroup is a simulated sync.WaitGroup.
type WaitGroup struct {
	wg sync.WaitGroup
	i  ident
}

//go:norace
func (w *WaitGroup) oid() int64 {
	id := w.i.get()
	if id < 0 {
		id = -id
	}
	return id
}

func (w *WaitGroup) Add(delta int) {
	if !simrt.Active() {
		w.wg.Add(delta)
		return
	}
	id := w.oid()
	w.wg.Add(delta) // panics on a negative counter exactly as the real one
	simrt.WgAdd(id, int64(delta))
}

func (w *WaitGroup) Done() { w.Add(-1) }

func (w *WaitGroup) Wait() {
	if !simrt.Active() {
		w.wg.Wait()
		return
	}
	id := w.oid()
	simrt.WgWait(id)
	w.wg.Wait() // the simulated counter is zero, so is the real one
}
