package h

import "verif/sim/simrt"

// PropDef binds a property id to its workload and to the oracle clauses that
// are reported as violations of *that* property.
type PropDef struct {
	ID      string
	Run     func(plan, sched *simrt.Source, trace bool) *RunOut
	Clauses map[string]bool
	Race    bool // built with -race; the oracle is the race detector's report
}

func set(groups ...[]string) map[string]bool {
	m := map[string]bool{}
	for _, g := range groups {
		for _, s := range g {
			m[s] = true
		}
	}
	return m
}

var (
	clSpec = []string{"ran-despite-invalid-selection", "no-error-for-invalid-selection", "unscheduled-rule-ran", "ran-more-than-once",
		"ran-after-stop", "barrier", "scheduled-rule-did-not-run", "overlap-in-sorted-stage", "salience-order", "given-order",
		"failure-not-reported", "error-without-failure", "wrong-failure-returned", "event-after-return", "stray-event"}
	clContain = []string{"api-panic", "goroutine-panic", "deadlock", "hang", "sync-misuse"}
	clResult  = []string{"result-map"}
	clLocals  = []string{"unassigned-local-visible", "local-changed-by-other-execution", "local-lost", "shared-injected-not-visible", "local-update-changed-injected-data"}
	clRuleSet = []string{"ruleset-extra-rule", "ruleset-wrong-version", "ruleset-wrong-salience", "ruleset-order", "ruleset-duplicate", "ruleset-missing-rule", "ruleset-wrong-metadata",
		"exist-query-disagrees", "mgmt-panic", "invalid-text-accepted", "valid-operation-rejected"}
	clConc    = []string{"conc-child-count", "conc-join", "conc-error-lost", "conc-next-statement-missing", "conc-assignment-lost", "event-after-return"}
)

func rep(x, n int) []int {
	out := make([]int, n)
	for i := range out {
		out[i] = x
	}
	return out
}

func cat(xs ...[]int) []int {
	var out []int
	for _, x := range xs {
		out = append(out, x...)
	}
	return out
}

var allEngineMethods = func() []int {
	var m []int
	for i := 0; i < NumEngineMethods; i++ {
		m = append(m, i)
	}
	return m
}()

var selectedMethods = []int{MSelected, MSelectedCtl, MSelectedCtlGiven, MSelectedCtlStop, MSelectedCtlStopGiven, MSelectedConc,
	MSelectedMix, MSelectedInverseMix, MSelNSortMConc, MSelNConcMSort, MSelNConcMConc}

var stagedMethods = []int{MMix, MInverseMix, MNSortMConc, MNConcMSort, MNConcMConc, MSelectedMix, MSelectedInverseMix,
	MSelNSortMConc, MSelNConcMSort, MSelNConcMConc}

var (
	ProfC04 = &Profile{
		Methods:  cat(rep(MExecute, 3), []int{MSelected}, rep(MSelectedCtl, 2)),
		MinRules: 1, MaxRules: 8, SalSpan: 3,
		Secs:    map[int]int{SecY: 2, SecCall: 3, SecAsgCall: 2, SecDiv: 1, SecIfKind: 1, SecNil: 1, SecConc: 1, SecIfIdx: 1, SecElifCall: 1},
		MaxSecs: 3, Rets: []int{RetNone, RetNone, RetNone, RetNestedV, RetNestedV, RetTopKind, RetKind, RetUnexp},
		FaultPct: 60, GatePct: 10, RetPct: 50, MinCalls: 6, MaxCalls: 20, UnknownNamePct: 30, EvolvePct: 40,
	}
	ProfC05 = &Profile{
		Methods:  stagedMethods,
		MinRules: 1, MaxRules: 8, SalSpan: 2,
		Secs:    map[int]int{SecY: 5, SecCall: 2, SecAsgCall: 1, SecDiv: 1, SecIfKind: 1, SecNil: 1, SecConc: 1, SecIfIdx: 1, SecElifCall: 1},
		MaxSecs: 4, Rets: []int{RetNone, RetNone, RetNone, RetNestedV, RetNestedV, RetTopKind, RetKind, RetUnexp},
		FaultPct: 50, GatePct: 55, RetPct: 50, MinCalls: 6, MaxCalls: 20, UnknownNamePct: 8, BadNMPct: 5, EvolvePct: 25,
	}
	ProfC09 = &Profile{
		Methods:  allEngineMethods,
		MinRules: 1, MaxRules: 6, SalSpan: 2,
		Secs: map[int]int{SecY: 2, SecCall: 2, SecAsgCall: 1, SecAsgKind: 2, SecDiv: 2, SecIdx: 2, SecNil: 2, SecUnknown: 2, SecArg: 2,
			SecIfKind: 2, SecIfIdx: 2, SecIfNil: 2, SecElif: 2, SecForKind: 2, SecForStep: 1, SecUnb: 1, SecUnbCont: 1, SecConc: 2, SecIfCall: 2, SecForRange: 2, SecMapIdx: 2, SecSetKind: 2, SecSetNil: 2, SecThreeNil: 2, SecIfThreeNil: 2, SecArgCount: 1, SecNilMapSet: 2, SecFuncCall: 2, SecIfFunc: 2, SecThreeSet: 2, SecFnArgKind: 2, SecFnArgCount: 1, SecLocStruct: 1, SecElifCall: 2, SecForAcc: 1, SecRangeGrow: 2, SecThreeSetLoc: 2, SecForCall: 2, SecStrayBreak: 1},
		MaxSecs: 4, Rets: []int{RetNone, RetNestedV, RetKind, RetTopKind, RetTop, RetUnexp},
		FaultPct: 75, GatePct: 10, RetPct: 50, MinCalls: 4, MaxCalls: 12, UnknownNamePct: 15, BadNMPct: 15, LongHistPct: 3,
	}
	ProfC11 = &Profile{
		Methods:  allEngineMethods,
		MinRules: 1, MaxRules: 6, SalSpan: 2,
		Secs:    map[int]int{SecY: 2, SecCall: 2, SecAsgKind: 1, SecStrayBreak: 1, SecForCall: 1},
		MaxSecs: 2, Rets: []int{RetNone, RetNestedV, RetNestedV, RetNestedB, RetLoop, RetTop, RetTopB, RetKind, RetTopKind, RetElse, RetReq, RetUnexp, RetForRange, RetElseIf, RetBreak, RetContinue, RetTopLoop},
		FaultPct: 45, FaultKinds: map[int]bool{SecCall: true, SecAsgKind: true, SecForCall: true, -1: true}, GatePct: 10, RetPct: 65, MinCalls: 4, MaxCalls: 14, UnknownNamePct: 15, BadNMPct: 5, EvolvePct: 20,
	}
	ProfC12 = &Profile{
		Methods:  selectedMethods,
		MinRules: 1, MaxRules: 7, SalSpan: 2,
		Secs:    map[int]int{SecY: 3, SecCall: 2, SecDiv: 1, SecIfKind: 1, SecIfIdx: 1},
		MaxSecs: 3, Rets: []int{RetNone, RetNone, RetNone, RetNestedV, RetNestedV, RetTopKind, RetKind, RetUnexp},
		FaultPct: 40, GatePct: 25, RetPct: 50, StopPct: 0, MinCalls: 6, MaxCalls: 20, UnknownNamePct: 45, BadNMPct: 30, EvolvePct: 25,
	}
	ProfC13 = &Profile{
		Methods:  []int{MDAG},
		MinRules: 1, MaxRules: 6, SalSpan: 2,
		Secs:    map[int]int{SecY: 4, SecCall: 2, SecDiv: 1, SecIfKind: 1, SecNil: 1, SecIfIdx: 2, SecFnArgKind: 1, SecElifCall: 2, SecForCall: 2},
		MaxSecs: 3, Rets: []int{RetNone, RetNone, RetNestedV, RetTop, RetTopKind, RetKind, RetUnexp},
		FaultPct: 50, GatePct: 55, RetPct: 50, MinCalls: 4, MaxCalls: 14, UnknownNamePct: 40, EvolvePct: 20,
	}
	ProfC14 = &Profile{
		Methods:  []int{MExecuteStopTag, MExecuteStopTag, MMixStopTag, MMixStopTag, MSelectedCtlStop, MSelectedCtlStopGiven},
		MinRules: 1, MaxRules: 7, SalSpan: 2,
		Secs:    map[int]int{SecY: 2, SecCall: 2, SecStop: 4, SecDiv: 1, SecIfKind: 1, SecIfIdx: 1},
		MaxSecs: 3, Rets: []int{RetNone, RetNone, RetNone, RetNestedV, RetNestedV, RetTopKind, RetKind, RetUnexp},
		FaultPct: 45, GatePct: 20, RetPct: 50, StopPct: 30, MinCalls: 6, MaxCalls: 20, UnknownNamePct: 20, EvolvePct: 15, TwinUntagged: true, PresetTagPct: 20,
	}
	ProfC15 = &Profile{
		Methods:  cat(allEngineMethods, rep(MDAG, 3), rep(MConcurrent, 2)),
		MinRules: 2, MaxRules: 6, SalSpan: 2,
		Secs:    map[int]int{SecY: 3, SecLocal: 5, SecReader: 2, SecCall: 1, SecIfKind: 1, SecIfIdx: 1, SecForKind: 1, SecAsgKind: 1, SecShW: 2, SecShR: 2, SecRangeKey: 3, SecLocObj: 3, SecLocObjReader: 1, SecLocAlias: 3, SecOptName: 3, SecLocStruct: 2, SecConc: 2, SecForAcc: 3},
		MaxSecs: 3, Rets: []int{RetNone, RetNestedV},
		FaultPct: 40, GatePct: 30, RetPct: 50, MinCalls: 4, MaxCalls: 14, UnknownNamePct: 10, BadNMPct: 5,
		CarryPct: 25, CarrySecs: map[int]int{SecY: 1, SecLocal: 5, SecRangeKey: 1, SecReader: 5, SecLocObj: 1, SecLocObjReader: 1, SecCall: 3, SecIfKind: 1, SecStop: 4, SecOptName: 1},
	}
	ProfC18 = &Profile{
		Methods:  []int{MExecute, MExecute, MConcurrent, MMix, MDAG},
		MinRules: 1, MaxRules: 4, SalSpan: 2,
		Secs:    map[int]int{SecY: 1, SecConc: 6},
		MaxSecs: 2, Rets: []int{RetNone, RetNone, RetNestedV},
		FaultPct: 45, FaultKinds: map[int]bool{SecConc: true}, GatePct: 50, RetPct: 50, MinCalls: 4, MaxCalls: 12,
	}
)

var allPoolMethodsNoEM = allEngineMethods

var (
	ProfC17 = &Profile{
		MinRules: 1, MaxRules: 4, SalSpan: 1,
		Secs:    map[int]int{SecY: 4, SecCall: 2, SecIfKind: 1, SecConc: 1, SecEcho: 3, SecFnArgKind: 1, SecIfIdx: 1},
		MaxSecs: 3, Rets: []int{RetNone, RetNestedV, RetReq},
		FaultPct: 40, GatePct: 60, RetPct: 50, StopPct: 10, UnknownNamePct: 15, BadNMPct: 10,
	}
	ProfC06 = &Profile{
		MinRules: 1, MaxRules: 4, SalSpan: 1,
		Secs:    map[int]int{SecY: 4, SecEcho: 4, SecOpt: 3, SecCall: 1, SecLocal: 2, SecReader: 1, SecIfNil: 1, SecIfKind: 1, SecFnArgKind: 1, SecApiSet: 2, SecForAcc: 1, SecOptFn: 3, SecThreeArith: 2},
		MaxSecs: 4, Rets: []int{RetNone, RetReq, RetReq, RetNestedV},
		FaultPct: 20, GatePct: 60, RetPct: 70, UnknownNamePct: 10, BadNMPct: 5,
	}
	ProfC07 = &Profile{
		MinRules: 1, MaxRules: 5, SalSpan: 2,
		Secs:    map[int]int{SecY: 5, SecUpd: 1},
		MaxSecs: 3, Rets: []int{RetNone, RetNestedV, RetNestedV},
		FaultPct: 0, GatePct: 50, RetPct: 70, UnknownNamePct: 10, BadNMPct: 0,
	}
	ProfC16 = &Profile{
		MinRules: 1, MaxRules: 5, SalSpan: 2,
		Secs:    map[int]int{SecY: 3, SecCall: 2},
		MaxSecs: 2, Rets: []int{RetNone, RetNestedV},
		FaultPct: 35, GatePct: 20, RetPct: 60, UnknownNamePct: 15, BadNMPct: 0,
	}
	clPoolMgmt  = []string{"query-disagrees", "instance-runs-stale-rules", "cleared-pool-call-failed", "mgmt-panic", "invalid-operation-accepted", "valid-operation-rejected"}
	clCompile   = []string{"compile-panic", "entry-points-disagree", "invalid-text-accepted", "valid-text-rejected", "failed-compile-changed-state",
		"entry-points-install-different-sets", "ruleset-extra-rule", "ruleset-wrong-version", "ruleset-wrong-salience", "ruleset-order", "ruleset-duplicate", "ruleset-missing-rule", "ruleset-wrong-metadata"}
	clVersions  = []string{"not-one-installed-version", "mgmt-panic", "invalid-text-accepted"}
	// two in-flight requests on one engine instance see each other's injected data / observer
	clShared    = []string{"foreign-request-data", "stray-event", "unscheduled-rule-ran", "ran-more-than-once"}
	clCapacity  = []string{"more-than-max-in-flight", "request-did-not-wait", "pool-capacity-lost", "mgmt-panic", "waiter-not-served-although-instance-free"}
	clIsolation = []string{"foreign-request-data", "stale-injected-key-visible", "result-map-modified-after-return", "request-data-modified-after-return",
		"stray-event", "unscheduled-rule-ran", "event-after-return", "result-map",
		// a rule's locals are part of the request: what an earlier request left in a local must not reach a later one
		"unassigned-local-visible", "local-changed-by-other-execution"}
)

func w2(opt *W2Opt) func(plan, sched *simrt.Source, trace bool) *RunOut {
	return func(plan, sched *simrt.Source, trace bool) *RunOut { return RunW2(opt, plan, sched, trace) }
}

// mixed runs the engine workload most of the time and the same profile through a pool otherwise.
func mixed(p *Profile) func(plan, sched *simrt.Source, trace bool) *RunOut {
	methods := p.Methods
	for _, m := range p.Methods {
		if m == MSelected {
			// the pool has one more selected entry point: the one that applies the pool's own execution model
			methods = cat(p.Methods, []int{MPoolSelEM, MPoolSelEM})
			break
		}
	}
	opt := &W2Opt{Prof: p, Methods: methods, MaxClients: 4, MaxReqs: 4, Oracle: CheckPoolCalls}
	return func(plan, sched *simrt.Source, trace bool) *RunOut {
		if plan.Intn(10) < 7 {
			return RunW1(p, plan, sched, trace)
		}
		return RunW2(opt, plan, sched, trace)
	}
}

// C19: the concurrency scenarios of C05, C06, C07, C13, C17, C18 (and management calls
// concurrent with executions) under the race detector.
var c19Scenarios = []func(plan, sched *simrt.Source, trace bool) *RunOut{
	w2(&W2Opt{Prof: ProfC07, Methods: cat(allEngineMethods, []int{MPoolEMMulti, MPoolSelEM}), MaxClients: 4, MaxReqs: 4, Admins: 2, MaxMgmt: 3,
		MgmtKinds: []int{OpFull, OpIncr, OpIncr, OpRemove, OpClear, OpSetEM}, InvalidPct: 10, UpdFromRule: true}),
	w2(&W2Opt{Prof: ProfC17, Methods: allEngineMethods, MaxClients: 6, MaxReqs: 4, FinalProbe: true, WaiterRound: true, NilTagPct: 30}),
	w2(&W2Opt{Prof: ProfC06, Methods: allEngineMethods, MaxClients: 5, MaxReqs: 5, OptPct: 50, Prelude: true}),
	w2(&W2Opt{Prof: ProfC05, Methods: stagedMethods, MaxClients: 3, MaxReqs: 3}),
	w2(&W2Opt{Prof: ProfC13, Methods: []int{MDAG}, MaxClients: 3, MaxReqs: 3}),
	w2(&W2Opt{Prof: ProfC18, Methods: []int{MExecute, MConcurrent, MMix, MDAG, MPoolEMMulti}, MaxClients: 3, MaxReqs: 3}),
	w1(ProfC18),
	w1(ProfC05),
	w1(ProfC15),
	RunBuilderConc,
	func(plan, sched *simrt.Source, trace bool) *RunOut { return RunW2Scripted(ProfC16, plan, sched, trace) },
	// the life of a pool that is cleared and then refilled piecemeal, never rebuilt in full: whatever the
	// management calls adopt as their master copy after a clear stays in use for every later call
	w2(&W2Opt{Prof: ProfC07, Methods: cat(allEngineMethods, []int{MPoolEMMulti, MPoolSelEM}), MaxClients: 4, MaxReqs: 4, Admins: 1, MaxMgmt: 5,
		MgmtKinds: []int{OpClear, OpIncr, OpIncr, OpRemove}, InvalidPct: 5, UpdFromRule: true}),
}

func runC19(plan, sched *simrt.Source, trace bool) *RunOut {
	return c19Scenarios[plan.Intn(len(c19Scenarios))](plan, sched, trace)
}

// OracleContainOnly keeps the clauses that do not depend on which rule set a request ran against
// (used when admins change the rules while requests run).
func OracleContainOnly(w *W2Run) []Violation {
	var out []Violation
	for _, v := range CheckPoolCalls(w) {
		switch v.Clause {
		case "api-panic", "event-after-return", "stray-event":
			out = append(out, v)
		}
	}
	for ai, ops := range w.Ops {
		for k, op := range ops {
			if r := w.OpRes[ai][k]; r.Panicked != "" {
				out = append(out, Violation{Clause: "api-panic", Detail: "management/" + opKindNames[op.Kind], Msg: "management operation " + op.String() + " panicked: " + firstLine(r.Panicked)})
			}
		}
	}
	return out
}

// c04 adds a pool scenario in which admins rebuild, extend and shrink the rule set while sorted
// executions are in flight: each execution must still be a complete, ordered, exactly-once run of
// one installed version (the C07 search decides which).
func c04(p *Profile) func(plan, sched *simrt.Source, trace bool) *RunOut {
	base := mixed(p)
	adm := &W2Opt{Prof: p, Methods: p.Methods, MaxClients: 4, MaxReqs: 4, Admins: 2, MaxMgmt: 3,
		MgmtKinds: []int{OpFull, OpIncr, OpIncr, OpRemove, OpRemove}, InvalidPct: 10, Oracle: OracleC07}
	return func(plan, sched *simrt.Source, trace bool) *RunOut {
		if plan.Intn(6) == 5 {
			return RunW2(adm, plan, sched, trace)
		}
		return base(plan, sched, trace)
	}
}

// c09 adds to the mixed engine/pool workload a pool scenario in which management calls run
// concurrently with faulty requests: nothing may panic, deadlock or hang there either.
func c09(p *Profile) func(plan, sched *simrt.Source, trace bool) *RunOut {
	base := mixed(p)
	adm := &W2Opt{Prof: p, Methods: cat(p.Methods, []int{MPoolEMMulti, MPoolSelEM}), MaxClients: 5, MaxReqs: 4, Admins: 2, MaxMgmt: 3,
		MgmtKinds: []int{OpFull, OpIncr, OpRemove, OpClear, OpSetEM}, InvalidPct: 15, NilTagPct: 10, FinalProbe: true, Restore: true, Oracle: OracleContainOnly}
	return func(plan, sched *simrt.Source, trace bool) *RunOut {
		if plan.Intn(5) == 4 {
			return RunW2(adm, plan, sched, trace)
		}
		return base(plan, sched, trace)
	}
}

func w1(p *Profile) func(plan, sched *simrt.Source, trace bool) *RunOut {
	return func(plan, sched *simrt.Source, trace bool) *RunOut { return RunW1(p, plan, sched, trace) }
}

// Props is the registry of claimed properties.
var Props = map[string]*PropDef{}

func register(p *PropDef) { Props[p.ID] = p }

func init() {
	register(&PropDef{ID: "C04", Run: c04(ProfC04), Clauses: set(clSpec, clContain, clVersions)})
	register(&PropDef{ID: "C05", Run: mixed(ProfC05), Clauses: set(clSpec, clContain)})
	register(&PropDef{ID: "C09", Run: c09(ProfC09), Clauses: set(clSpec, clContain)})
	register(&PropDef{ID: "C11", Run: mixed(ProfC11), Clauses: set(clResult, clContain)})
	register(&PropDef{ID: "C12", Run: mixed(ProfC12), Clauses: set(clSpec, clContain)})
	register(&PropDef{ID: "C13", Run: mixed(ProfC13), Clauses: set(clSpec, clContain)})
	register(&PropDef{ID: "C14", Run: mixed(ProfC14), Clauses: set(clSpec, clContain, []string{"differs-from-untagged-variant"})})
	register(&PropDef{ID: "C15", Run: mixed(ProfC15), Clauses: set(clLocals, clContain)})
	register(&PropDef{ID: "C17", Clauses: set(clCapacity, clContain, clShared), Run: w2(&W2Opt{Prof: ProfC17, Methods: cat(allEngineMethods, []int{MPoolEM, MPoolEM, MPoolEMMulti}), MaxClients: 6, MaxReqs: 4,
		FinalProbe: true, WaiterRound: true, NilTagPct: 40, Admins: 1, MaxMgmt: 3, MgmtKinds: []int{OpClear, OpClear, OpFull, OpIncr}, InvalidPct: 10, Restore: true, BigPools: true, Flood: true,
		Oracle: OracleC17})})
	register(&PropDef{ID: "C06", Clauses: set(clIsolation, clContain), Run: w2(&W2Opt{Prof: ProfC06, Methods: cat(allEngineMethods, []int{MPoolEM, MPoolEMMulti, MPoolSelEM}), MaxClients: 5, MaxReqs: 5,
		OptPct: 50, Prelude: true, ThinPct: 12, Oracle: OracleC06})})
	register(&PropDef{ID: "C07", Clauses: set(clVersions, clContain), Run: w2(&W2Opt{Prof: ProfC07, Methods: cat(allEngineMethods, []int{MPoolEMMulti, MPoolSelEM, MPoolEM, MPoolEM}), MaxClients: 4, MaxReqs: 4,
		Admins: 2, MaxMgmt: 3, MgmtKinds: []int{OpFull, OpIncr, OpIncr, OpRemove}, InvalidPct: 15, UpdFromRule: true, Oracle: OracleC07})})
	register(&PropDef{ID: "C16", Clauses: set(clPoolMgmt, clSpec, clContain, []string{"result-map"}), Run: func(plan, sched *simrt.Source, trace bool) *RunOut {
		return RunW2Scripted(ProfC16, plan, sched, trace)
	}})
	register(&PropDef{ID: "C10", Clauses: set(clCompile, clContain), Run: RunW3Compile})
	register(&PropDef{ID: "C19", Clauses: set([]string{"data-race"}), Run: runC19, Race: true})
	register(&PropDef{ID: "C08", Run: RunW3Builder, Clauses: set(clRuleSet, clContain)})
	register(&PropDef{ID: "C18", Run: mixed(ProfC18), Clauses: set(clConc, clContain)})
}
