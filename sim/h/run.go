package h

import (
	"fmt"
	"hash/fnv"
	"sort"
	"strings"

	"verif/sim/simrt"
)

// Deep is set in the thorough tier: longer call sequences, more clients, requests and management
// operations per run (rule-set sizes stay as they are: the templates give each rule id its own fields).
var Deep bool

func deep(n, extra int) int {
	if Deep {
		return n + extra
	}
	return n
}

// NSites is the number of P-sites of the instrumented copy (set by the worker
// from .vsites.json).
var NSites int

// RunOut is the outcome of one simulated run.
type RunOut struct {
	Violations []Violation // clauses of the property under check
	Other      []Violation // clauses belonging to other properties (counted, not reported)
	End        int
	EndInfo    string
	St         simrt.Stats
	TraceHash  uint64
	EventHash  uint64
	NEvents    int
	NonTrivial bool
	Counters   map[string]int64 // fault kinds fired, reach probes
	Describe   func() []string  // decoded workload, for replay files and samples
	Trace      []simrt.TraceStep
	Events     []simrt.Event
	PlanRec    []uint32
	SchedRec   []uint32
	Infra      string // non-empty: harness/infrastructure problem (exit 2)
	Unstable   bool   // a task blocked outside the simulator (channel, sleep): the run is not exactly repeatable
}

func (o *RunOut) count(k string, n int64) {
	if o.Counters == nil {
		o.Counters = map[string]int64{}
	}
	o.Counters[k] += n
}

// GenConfig draws the swarm configuration of a run.
func (g *G) GenConfig(trace bool) simrt.Config {
	cfg := simrt.Config{Trace: trace}
	switch g.Intn(6) {
	case 0:
		cfg.Strategy, cfg.StickPermil = simrt.StratSticky, 900
	case 1:
		cfg.Strategy, cfg.StickPermil = simrt.StratSticky, 500
	case 2:
		cfg.Strategy = simrt.StratUniform
	case 3:
		cfg.Strategy, cfg.StickPermil = simrt.StratSticky, 990
	case 4:
		cfg.Strategy, cfg.StickPermil, cfg.StarveBudget = simrt.StratStarve, 700, 5+g.Intn(300)
	case 5:
		cfg.Strategy, cfg.StickPermil = simrt.StratSticky, 100
	}
	cfg.ShuffleMaps = g.Intn(4) != 0
	pp := [...]int{0, 20, 100, 500}[g.Intn(4)]
	cfg.PProb = pp
	if pp > 0 && NSites > 0 {
		word := uint64(g.Intn(1 << 30))
		cfg.PMask = make([]bool, NSites+1)
		for i := range cfg.PMask {
			x := (uint64(i)+1)*0x9E3779B97F4A7C15 ^ word*0xC2B2AE3D27D4EB4F
			x ^= x >> 29
			x *= 0xBF58476D1CE4E5B9
			x ^= x >> 32
			cfg.PMask[i] = int(x%1000) < pp
		}
	}
	cfg.StallSteps = int64([...]int{300, 60, 1500}[g.Intn(3)])
	cfg.StepCap = 400000
	return cfg
}

// TagPut tags tasks the harness cannot name directly; the pool's asynchronous
// hand-back goroutine is recognised by its parent (a client task) instead, so
// the tag is used for harness-spawned tasks that should be starved.
const TagPut = 7

// crashSite extracts the innermost gengine function of a panic stack.
func crashSite(stack string) string {
	const pre = "github.com/bilibili/gengine/"
	for _, l := range strings.Split(stack, "\n") {
		if strings.HasPrefix(l, "\t") || !strings.HasPrefix(l, pre) {
			continue
		}
		f := l[len(pre):]
		if i := strings.LastIndexByte(f, '('); i > 0 {
			f = f[:i]
		}
		return f
	}
	return "?"
}

func eventHash(evs []simrt.Event) uint64 {
	h := fnv.New64a()
	var b [32]byte
	for _, e := range evs {
		put := func(off int, v uint64) {
			for i := 0; i < 8; i++ {
				b[off+i] = byte(v >> (8 * i))
			}
		}
		put(0, uint64(e.Kind))
		put(8, uint64(e.A))
		put(16, uint64(e.B))
		put(24, uint64(e.C))
		h.Write(b[:])
	}
	return h.Sum64()
}

// runLevel turns the way a run ended into violations.
func runLevel(r *simrt.Run, inFlight string) []Violation {
	var out []Violation
	switch r.End {
	case simrt.EndCrash:
		for _, c := range r.Crashes {
			out = append(out, Violation{Clause: "goroutine-panic", Detail: crashSite(c.Stack), Msg: fmt.Sprintf("a panic escaped a goroutine gengine started (process death): %s; in flight: %s", firstLine(c.Value), inFlight)})
		}
	case simrt.EndDeadlock:
		out = append(out, Violation{Clause: "deadlock", Msg: "no task can move: " + r.EndInfo + "; in flight: " + inFlight})
	case simrt.EndHang:
		out = append(out, Violation{Clause: "hang", Msg: r.EndInfo + "; in flight: " + inFlight})
	case simrt.EndFatal:
		out = append(out, Violation{Clause: "sync-misuse", Msg: r.EndInfo + "; in flight: " + inFlight})
	}
	return out
}

func inFlightCalls(views map[int]*CallView) (string, string) {
	var ids []int
	for id, v := range views {
		if v.CB >= 0 && v.CR < 0 {
			ids = append(ids, id)
		}
	}
	sort.Ints(ids)
	s, m := "", ""
	for _, id := range ids {
		s += views[id].C.String() + "; "
		if m == "" {
			m = MethodNames[views[id].C.Method]
		}
	}
	return s, m
}

// countFaults tallies which fault kinds fired and a few reach probes.
func countFaults(o *RunOut, sc *Scenario, views map[int]*CallView) {
	for _, v := range views {
		if v.CB >= 0 {
			o.count("calls", 1)
			o.count("calls/"+MethodNames[v.C.Method], 1)
		}
		for _, x := range v.Execs {
			o.count("rule_executions", 1)
			if x.Fired {
				rd := sc.Rule(x.Rule)
				name := "?"
				if rd != nil {
					if x.FirePoint < len(rd.Secs) {
						name = secNames[rd.Secs[x.FirePoint].Kind]
					} else {
						name = "ReturnExpr"
					}
				}
				o.count("fault_fired/"+name, 1)
			}
			if x.RetTrue {
				o.count("probe/rule_returned", 1)
			}
			if x.StopSet {
				o.count("probe/stop_tag_set", 1)
			}
			if len(x.Kids) > 0 {
				o.count("probe/conc_block_ran", 1)
			}
		}
	}
}

func fillStats(o *RunOut, r *simrt.Run) {
	o.End, o.EndInfo, o.St = r.End, r.EndInfo, r.St
	o.TraceHash = r.TraceHash
	o.EventHash = eventHash(r.Events)
	o.NEvents = len(r.Events)
	o.Trace = r.Trace
	o.Events = r.Events
	o.count("fault_fired/gate_stall", r.St.GateWaits)
	o.count("gate_opened_by_quiescence", r.St.GateAuto)
	o.count("gate_opened_by_stall_rule", r.St.GateStall)
	o.count("map_order_permuted", r.St.MapShuffles)
	o.count("map_ranges", r.St.MapRanges)
	o.count("psite_preemptions", r.St.PYields)
	o.count("lock_contended", r.St.LockBlocks)
	o.count("starved_steps", r.St.StarvedSteps)
	o.count("fault_fired/task_blocked_outside_simulator", r.St.ExternalBlocks)
	o.count("spin_yields_forced", r.St.SpinYields)
	o.Unstable = r.Unstable
}
