package h

import (
	"fmt"
	"sort"
	"strconv"
	"strings"
)

// Execution spec: what a call may do, written from the property statements
// (C04, C05, C12, C13, C14) and the documented parameter meanings — not from
// the implementation.

const (
	ModeOrdered   = iota // one at a time, non-increasing salience (ties in any order)
	ModeGiven            // one at a time, exactly the listed order
	ModeUnordered        // any overlap
)

type Stage struct {
	Rules []int // rule ids, with multiplicity
	Mode  int
	Cont  bool // ordered stages: keep going after a failing rule
}

type Spec struct {
	Stages      []Stage
	StopBetween bool // a failure in a stage keeps every later stage from starting
	StopTag     int  // 0: none; 1: sorted semantics (nothing starts after the rule that set it); 2: mix semantics (looked at after stage one only)
	MustErr     bool // the call must fail without running anything
	NoJudge     bool // parameters for which the documentation promises nothing: only containment is judged
	Why         string
}

// RuleSet is the rule set a call runs against: id -> salience.
type RuleSet map[int]int

func (rs RuleSet) sortedIDs() []int {
	ids := make([]int, 0, len(rs))
	for id := range rs {
		ids = append(ids, id)
	}
	sort.Slice(ids, func(i, j int) bool {
		if rs[ids[i]] != rs[ids[j]] {
			return rs[ids[i]] > rs[ids[j]]
		}
		return ids[i] < ids[j]
	})
	return ids
}

// existing returns the ids of the names that exist, in the order given.
func (rs RuleSet) existing(names []string) (ids []int, unknown int) {
	for _, n := range names {
		id, err := strconv.Atoi(n)
		if err != nil {
			unknown++
			continue
		}
		if _, ok := rs[id]; ok && strconv.Itoa(id) == n {
			ids = append(ids, id)
		} else {
			unknown++
		}
	}
	return
}

func without(ids []int, x int) []int {
	out := make([]int, 0, len(ids))
	done := false
	for _, id := range ids {
		if id == x && !done {
			done = true
			continue
		}
		out = append(out, id)
	}
	return out
}

// subsetsOfSize enumerates the k-subsets of xs.
func subsetsOfSize(xs []int, k int) [][]int {
	var out [][]int
	var rec func(start int, cur []int)
	rec = func(start int, cur []int) {
		if len(cur) == k {
			out = append(out, append([]int(nil), cur...))
			return
		}
		for i := start; i < len(xs); i++ {
			rec(i+1, append(cur, xs[i]))
		}
	}
	rec(0, nil)
	return out
}

// maxSplits bounds the number of tie alternatives that are enumerated; beyond it the split is chosen
// from the observed start order (see topSplits).
const maxSplits = 64

func binom(n, k int) int {
	if k < 0 || k > n {
		return 0
	}
	r := 1
	for i := 1; i <= k; i++ {
		r = r * (n - k + i) / i
		if r > 1<<30 {
			return 1 << 30
		}
	}
	return r
}

// topSplits enumerates every tie-consistent way to take the `n` highest and
// then the `m` next-highest rules of ids (sorted by non-increasing salience).
// With many tied rules the number of ways explodes (C(40,24) for forty rules of one salience); then one
// split is returned instead: among tied rules those that were observed to start earliest are preferred
// (order = rule ids in order of their first observed start).  Because stage one ends before stage two
// begins, an observation that is admissible under some split is admissible under this one; an
// observation admissible under none is judged against it.
func topSplits(rs RuleSet, ids []int, n, m int, order []int) [][2][]int {
	rank := map[int]int{}
	for i, id := range order {
		if _, ok := rank[id]; !ok {
			rank[id] = i
		}
	}
	guided := false
	// choose stage one: all rules strictly above the salience at position n-1, plus a subset of the tie group
	pick := func(pool []int, k int) [][2][]int { // returns (chosen, rest) alternatives
		if k > len(pool) {
			return nil
		}
		if k == 0 {
			return [][2][]int{{nil, pool}}
		}
		cut := rs[pool[k-1]]
		var above, tie, below []int
		for _, id := range pool {
			switch {
			case rs[id] > cut:
				above = append(above, id)
			case rs[id] == cut:
				tie = append(tie, id)
			default:
				below = append(below, id)
			}
		}
		var subs [][]int
		if guided || binom(len(tie), k-len(above)) > maxSplits {
			guided = true
			pref := append([]int(nil), tie...)
			sort.SliceStable(pref, func(i, j int) bool {
				ri, oki := rank[pref[i]]
				rj, okj := rank[pref[j]]
				if oki != okj {
					return oki
				}
				return oki && ri < rj
			})
			subs = [][]int{pref[:k-len(above)]}
		} else {
			subs = subsetsOfSize(tie, k-len(above))
		}
		var alts [][2][]int
		for _, sub := range subs {
			chosen := append(append([]int(nil), above...), sub...)
			inSub := map[int]bool{}
			for _, id := range sub {
				inSub[id] = true
			}
			var rest []int
			for _, id := range tie {
				if !inSub[id] {
					rest = append(rest, id)
				}
			}
			rest = append(rest, below...)
			alts = append(alts, [2][]int{chosen, rest})
		}
		return alts
	}
	var out [][2][]int
	for _, a := range pick(ids, n) {
		for _, b := range pick(a[1], m) {
			out = append(out, [2][]int{a[0], b[0]})
			if len(out) >= maxSplits*maxSplits {
				return out
			}
		}
	}
	return out
}

// SpecsForView is SpecsFor with the observed start order of the call's executions as a hint for
// tie-breaking where the alternatives are too many to enumerate.
func SpecsForView(v *CallView, rs RuleSet, em int) []Spec {
	xs := append([]*Exec(nil), v.Execs...)
	sort.SliceStable(xs, func(i, j int) bool { return xs[i].First < xs[j].First })
	order := make([]int, 0, len(xs))
	for _, x := range xs {
		order = append(order, x.Rule)
	}
	return specsFor(v.C, rs, em, order)
}

// SpecsFor returns the admissible specs of a call (several when ties make the
// choice of "highest"/"lowest"/window ambiguous).  em is the pool's execution
// model for the *SpecifiedEM methods.
func SpecsFor(c *Call, rs RuleSet, em int) []Spec { return specsFor(c, rs, em, nil) }

func specsFor(c *Call, rs RuleSet, em int, order []int) []Spec {
	all := rs.sortedIDs()
	if len(all) == 0 {
		return []Spec{{NoJudge: true, Why: "empty rule set"}}
	}
	method := c.Method
	names := c.Names
	switch method {
	case MPoolEM, MPoolEMMulti:
		method = [...]int{0, MExecute, MConcurrent, MMix, MInverseMix}[em]
		if method == MExecute {
			return []Spec{{Stages: []Stage{{Rules: all, Mode: ModeOrdered, Cont: true}}}}
		}
	case MPoolSelEM:
		method = [...]int{0, MSelected, MSelectedConc, MSelectedMix, MSelectedInverseMix}[em]
	}
	sel, unknown := rs.existing(names)
	sortSel := func() []int {
		s := append([]int(nil), sel...)
		sort.SliceStable(s, func(i, j int) bool { return rs[s[i]] > rs[s[j]] })
		return s
	}
	mixSpecs := func(ids []int, tag int) []Spec {
		// highest first (alone), then the rest concurrently; nothing after a failing first rule
		var out []Spec
		top := rs[ids[0]]
		for _, id := range ids {
			if rs[id] == top {
				out = append(out, Spec{Stages: []Stage{{Rules: []int{id}, Mode: ModeOrdered}, {Rules: without(ids, id), Mode: ModeUnordered}}, StopBetween: true, StopTag: tag})
			}
		}
		return out
	}
	invSpecs := func(ids []int) []Spec {
		var out []Spec
		low := rs[ids[len(ids)-1]]
		for _, id := range ids {
			if rs[id] == low {
				out = append(out, Spec{Stages: []Stage{{Rules: without(ids, id), Mode: ModeUnordered}, {Rules: []int{id}, Mode: ModeOrdered}}, StopBetween: true})
			}
		}
		return out
	}
	nm := func(ids []int, m1, m2 int) []Spec {
		var out []Spec
		for _, sp := range topSplits(rs, ids, c.N, c.M, order) {
			out = append(out, Spec{Stages: []Stage{{Rules: sp[0], Mode: m1, Cont: c.B}, {Rules: sp[1], Mode: m2, Cont: c.B}}, StopBetween: !c.B})
		}
		return out
	}
	switch method {
	case MExecute:
		return []Spec{{Stages: []Stage{{Rules: all, Mode: ModeOrdered, Cont: c.B}}}}
	case MExecuteStopTag:
		return []Spec{{Stages: []Stage{{Rules: all, Mode: ModeOrdered, Cont: c.B}}, StopTag: 1}}
	case MConcurrent:
		return []Spec{{Stages: []Stage{{Rules: all, Mode: ModeUnordered}}}}
	case MMix:
		return mixSpecs(all, 0)
	case MMixStopTag:
		return mixSpecs(all, 2)
	case MInverseMix:
		return invSpecs(all)
	case MNSortMConc, MNConcMSort, MNConcMConc:
		if c.N <= 0 || c.M <= 0 || c.N+c.M > len(all) {
			return []Spec{{NoJudge: true, Why: "N/M outside the documented range"}}
		}
		switch method {
		case MNSortMConc:
			return nm(all, ModeOrdered, ModeUnordered)
		case MNConcMSort:
			return nm(all, ModeUnordered, ModeOrdered)
		default:
			return nm(all, ModeUnordered, ModeUnordered)
		}
	case MDAG:
		var st []Stage
		for _, layer := range c.DAG {
			ids, _ := rs.existing(layer)
			st = append(st, Stage{Rules: ids, Mode: ModeUnordered})
		}
		return []Spec{{Stages: st, StopBetween: true}}
	}
	// selected variants
	if hasDup(names) {
		return []Spec{{NoJudge: true, Why: "repeated names: behaviour not specified"}}
	}
	switch method {
	case MSelNSortMConc, MSelNConcMSort, MSelNConcMConc:
		if c.N <= 0 || c.M <= 0 {
			return []Spec{{NoJudge: true, Why: "N/M outside the documented range"}}
		}
		if unknown > 0 || len(names) != c.N+c.M {
			return []Spec{{MustErr: true, Why: "unknown name or count differs from N+M"}}
		}
		s := sortSel()
		switch method {
		case MSelNSortMConc:
			return nm(s, ModeOrdered, ModeUnordered)
		case MSelNConcMSort:
			return nm(s, ModeUnordered, ModeOrdered)
		default:
			return nm(s, ModeUnordered, ModeUnordered)
		}
	}
	if len(sel) == 0 {
		return []Spec{{MustErr: true, Why: "no named rule exists"}}
	}
	switch method {
	case MSelected:
		return []Spec{{Stages: []Stage{{Rules: sortSel(), Mode: ModeOrdered, Cont: true}}}}
	case MSelectedCtl:
		return []Spec{{Stages: []Stage{{Rules: sortSel(), Mode: ModeOrdered, Cont: c.B}}}}
	case MSelectedCtlGiven:
		return []Spec{{Stages: []Stage{{Rules: sel, Mode: ModeGiven, Cont: c.B}}}}
	case MSelectedCtlStop:
		return []Spec{{Stages: []Stage{{Rules: sortSel(), Mode: ModeOrdered, Cont: c.B}}, StopTag: 1}}
	case MSelectedCtlStopGiven:
		return []Spec{{Stages: []Stage{{Rules: sel, Mode: ModeGiven, Cont: c.B}}, StopTag: 1}}
	case MSelectedConc:
		return []Spec{{Stages: []Stage{{Rules: sel, Mode: ModeUnordered}}}}
	case MSelectedMix:
		return mixSpecs(sortSel(), 0)
	case MSelectedInverseMix:
		return invSpecs(sortSel())
	}
	return []Spec{{NoJudge: true, Why: "unknown method"}}
}

const maxViolationsPerCall = 40

func hasDup(names []string) bool {
	seen := map[string]bool{}
	for _, n := range names {
		if seen[n] {
			return true
		}
		seen[n] = true
	}
	return false
}

// CheckSpec decides whether the observed executions of a call are admissible
// for spec sp and returns the violated clauses (empty = admissible).
func CheckSpec(v *CallView, sp *Spec, rs RuleSet) []Violation {
	var out []Violation
	mname := MethodNames[v.C.Method]
	add := func(clause, detail, msg string) {
		out = append(out, Violation{Clause: clause, Method: mname, Detail: detail, Msg: msg, Call: v.C.Idx})
	}
	// messages are formatted only for the first violations of a call: a run gone wild (thousands of stray
	// executions) must not cost minutes of formatting
	addf := func(clause, detail, format string, args ...interface{}) {
		if len(out) >= maxViolationsPerCall {
			return
		}
		add(clause, detail, fmt.Sprintf(format, args...))
	}
	_ = add
	bs := ""
	if HasB(v.C.Method) {
		bs = fmt.Sprintf("b=%v", v.C.B)
	}
	if sp.MustErr {
		if len(v.Execs) > 0 {
			addf("ran-despite-invalid-selection", bs, "%s: the call must fail without running anything (%s) but ran %v", v.C, sp.Why, v.Execs)
		}
		if v.CR >= 0 && v.Flags&1 == 0 {
			addf("no-error-for-invalid-selection", bs, "%s: must return an error (%s)", v.C, sp.Why)
		}
		return out
	}
	// slots: for every rule the stages it is scheduled in, in order
	slots := map[int][]int{}
	for si, st := range sp.Stages {
		for _, id := range st.Rules {
			slots[id] = append(slots[id], si)
		}
	}
	per := make([][]*Exec, len(sp.Stages))
	used := map[int]int{}
	for _, x := range v.Execs {
		sl, ok := slots[x.Rule]
		if !ok {
			addf("unscheduled-rule-ran", bs, "%s: rule %d is not part of the call but ran", v.C, x.Rule)
			continue
		}
		k := used[x.Rule]
		if k >= len(sl) {
			addf("ran-more-than-once", bs, "%s: rule %d ran %d times, scheduled %d", v.C, x.Rule, k+1, len(sl))
			continue
		}
		used[x.Rule] = k + 1
		per[sl[k]] = append(per[sl[k]], x)
	}
	blocked, why := false, ""
	prevLast := int64(-1)
	prevStage := -1
	anyFired := false
	for si, st := range sp.Stages {
		xs := per[si]
		if blocked {
			for _, x := range xs {
				addf("ran-after-stop", bs, "%s: %v ran although %s", v.C, x, why)
			}
			continue
		}
		// barrier with the previous stage that ran
		for _, x := range xs {
			if prevLast >= 0 && x.First < prevLast {
				addf("barrier", fmt.Sprintf("stage%d", si), "%s: %v of stage %d started before stage %d had finished (its last event is #%d)", v.C, x, si, prevStage, prevLast)
			}
		}
		switch st.Mode {
		case ModeUnordered:
			cnt := map[int]int{}
			for _, x := range xs {
				cnt[x.Rule]++
			}
			want := map[int]int{}
			for _, id := range st.Rules {
				want[id]++
			}
			for id, w := range want {
				if cnt[id] < w {
					addf("scheduled-rule-did-not-run", bs, "%s: rule %d of stage %d ran %d times, scheduled %d", v.C, id, si, cnt[id], w)
				}
			}
			for _, x := range xs {
				if x.Fired {
					anyFired = true
					if sp.StopBetween {
						blocked, why = true, fmt.Sprintf("rule %d of stage %d had failed", x.Rule, si)
					}
				}
			}
		default:
			stopAt := -1
			for i, x := range xs {
				if i > 0 {
					p := xs[i-1]
					if x.First < p.Last {
						addf("overlap-in-sorted-stage", bs, "%s: %v started before %v had finished", v.C, x, p)
					}
					if st.Mode == ModeOrdered && rs[x.Rule] > rs[p.Rule] {
						addf("salience-order", bs, "%s: rule %d (salience %d) ran after rule %d (salience %d)", v.C, x.Rule, rs[x.Rule], p.Rule, rs[p.Rule])
					}
				}
				if stopAt >= 0 {
					addf("ran-after-stop", bs, "%s: %v ran although %s", v.C, x, why)
					continue
				}
				if x.Fired {
					anyFired = true
					if !st.Cont {
						stopAt, why = i, fmt.Sprintf("rule %d had failed under stop-on-error", x.Rule)
					}
					if sp.StopBetween {
						blocked = true
						if why == "" {
							why = fmt.Sprintf("rule %d of stage %d had failed", x.Rule, si)
						}
					}
				}
				if sp.StopTag == 1 && x.StopSet && stopAt < 0 {
					stopAt, why = i, fmt.Sprintf("rule %d had set the stop tag", x.Rule)
					blocked = true
				}
				if sp.StopTag == 2 && si == 0 && x.StopSet {
					blocked, why = true, fmt.Sprintf("the first rule %d had set the stop tag", x.Rule)
				}
			}
			if st.Mode == ModeGiven {
				// exact order: the executed rules must be a prefix of the list (or all of it)
				for i, x := range xs {
					if i < len(st.Rules) && x.Rule != st.Rules[i] {
						addf("given-order", bs, "%s: position %d ran rule %d, the caller listed %d", v.C, i, x.Rule, st.Rules[i])
						break
					}
				}
			}
			if stopAt < 0 && len(xs) < len(st.Rules) {
				ran := map[int]int{}
				for _, x := range xs {
					ran[x.Rule]++
				}
				var miss []string
				for _, id := range st.Rules {
					if ran[id] > 0 {
						ran[id]--
					} else {
						miss = append(miss, strconv.Itoa(id))
					}
				}
				addf("scheduled-rule-did-not-run", bs, "%s: stage %d: rules [%s] did not run although nothing stopped the stage", v.C, si, strings.Join(miss, ","))
			}
			if stopAt >= 0 && st.Mode == ModeOrdered {
				// everything that did not run must not outrank what ran (tie-tolerant)
				minRan := rs[xs[stopAt].Rule]
				ran := map[int]int{}
				for _, x := range xs {
					ran[x.Rule]++
				}
				for _, id := range st.Rules {
					if ran[id] > 0 {
						ran[id]--
						continue
					}
					if rs[id] > minRan {
						addf("salience-order", bs, "%s: rule %d (salience %d) was skipped although it outranks executed rule %d", v.C, id, rs[id], xs[stopAt].Rule)
					}
				}
			}
		}
		for _, x := range xs {
			if x.Last > prevLast {
				prevLast = x.Last
			}
		}
		if len(xs) > 0 {
			prevStage = si
		}
	}
	// error value
	if v.CR >= 0 && v.Flags&2 == 0 {
		gotErr := v.Flags&1 == 1
		if anyFired && !gotErr {
			addf("failure-not-reported", bs, "%s: a rule failed but the call returned nil", v.C)
		}
		if !anyFired && gotErr {
			// "an error if and only if a rule failed" is stated for the sort model (C04); elsewhere only
			// "a failure surfaces as an error" is (C09), so the converse is recorded under a name no property claims
			clause := "error-without-failure"
			if !(len(sp.Stages) == 1 && sp.Stages[0].Mode != ModeUnordered) {
				clause = "error-without-failure-unspecified-model"
			}
			addf(clause, bs, "%s: no rule failed but the call returned %v", v.C, errStr(v.C))
		}
	}
	return out
}

func errStr(c *Call) string {
	c.mu.Lock()
	defer c.mu.Unlock()
	if c.Err == nil {
		return "<nil>"
	}
	s := c.Err.Error()
	if len(s) > 200 {
		s = s[:200] + "..."
	}
	return s
}

// CheckAgainstSpecs returns the violations w.r.t. the best-fitting admissible spec.
func CheckAgainstSpecs(v *CallView, specs []Spec, rs RuleSet) []Violation {
	var best []Violation
	for i := range specs {
		if specs[i].NoJudge {
			return nil
		}
		vs := CheckSpec(v, &specs[i], rs)
		if len(vs) == 0 {
			return nil
		}
		if best == nil || len(vs) < len(best) {
			best = vs
		}
	}
	return best
}
