package h

import (
	"fmt"
	"sort"
)

// activeInterval returns the span of rule events of a request (ok=false: it ran no rule).
func activeInterval(v *CallView) (lo, hi int64, ok bool) {
	for _, x := range v.Execs {
		if !ok || x.First < lo {
			lo = x.First
		}
		if !ok || x.Last > hi {
			hi = x.Last
		}
		ok = true
	}
	return
}

// OracleC17: at most max requests inside rules at once; a request that finds
// every instance busy waits; after everything, max simultaneous requests still fit.
func OracleC17(w *W2Run) []Violation {
	var out []Violation
	add := func(clause, detail, msg string) {
		out = append(out, Violation{Clause: clause, Detail: detail, Msg: msg})
	}
	type pt struct {
		seq   int64
		delta int
		call  int
	}
	var pts []pt
	for _, c := range w.Sc.Calls {
		if lo, hi, ok := activeInterval(w.Views[c.Idx]); ok {
			pts = append(pts, pt{lo, +1, c.Idx}, pt{hi, -1, c.Idx})
		}
	}
	sort.Slice(pts, func(i, j int) bool {
		if pts[i].seq != pts[j].seq {
			return pts[i].seq < pts[j].seq
		}
		return pts[i].delta > pts[j].delta
	})
	cur, worst := 0, 0
	inside := map[int]bool{}
	var worstSet []int
	for _, p := range pts {
		if p.delta > 0 {
			inside[p.call] = true
			cur++
			if cur > worst {
				worst = cur
				worstSet = worstSet[:0]
				for c := range inside {
					worstSet = append(worstSet, c)
				}
			}
		} else {
			delete(inside, p.call)
			cur--
		}
	}
	if worst >= w.Max {
		w.Out.count("probe/all_instances_busy_simultaneously", 1)
	}
	if worst > w.Max {
		sort.Ints(worstSet)
		add("more-than-max-in-flight", fmt.Sprintf("max=%d", w.Max), fmt.Sprintf("pool (min %d, max %d): %d requests were inside rules at the same time: calls %v", w.Min, w.Max, worst, worstSet))
	}
	for _, rd := range w.Rounds {
		if len(rd.Waiters) == 0 {
			continue
		}
		for _, wc := range rd.Waiters {
			v := w.Views[wc]
			if rd.FullSeq < 0 || v.CB < rd.FullSeq {
				continue // the extra request arrived before every instance was held: nothing to judge
			}
			w.Out.count("probe/request_arrived_while_all_instances_held", 1)
			// the moment the first held request went on (released by the controller, or by the quiescence
			// rule when nothing else could move): from then on an instance may legitimately become free
			rel := int64(len(w.Run.Events)) + 1
			heldAt := map[int64]int64{}
			for _, e := range w.Run.Events {
				if e.Kind == EvHeld {
					if _, ok := w.controllerRound(rd, int(e.A)); ok {
						heldAt[e.A] = e.Seq
					}
					continue
				}
				if h, ok := heldAt[e.A]; ok && e.Seq > h && IsRuleEvent(e.Kind) {
					if e.Seq < rel {
						rel = e.Seq
					}
					delete(heldAt, e.A)
				}
			}
			if lo, _, ok := activeInterval(v); ok && lo < rel {
				add("request-did-not-wait", "ran", fmt.Sprintf("%s started running rules (#%d) while all %d instances were still held (released at #%d)", v.C, lo, w.Max, rel))
			} else if v.CR >= 0 && v.CR < rel {
				add("request-did-not-wait", "returned", fmt.Sprintf("%s returned (#%d, flags %d) while all %d instances were still held (released at #%d): it must wait, not fail", v.C, v.CR, v.Flags, w.Max, rel))
			} else if v.CR >= 0 {
				w.Out.count("probe/request_waited_for_an_engine", 1)
			}
			if rd.Staged && rd.phase == 2 {
				w.Out.count("probe/one_instance_handed_back_while_others_busy", 1)
				if rd.Starved {
					add("waiter-not-served-although-instance-free", fmt.Sprintf("max=%d", w.Max), fmt.Sprintf("%s kept waiting although one of the %d in-flight requests (%s) had finished and handed its instance back; it was only served after the other requests had been released too", v.C, w.Max, w.Views[rd.Calls[rd.First]].C))
				}
			}
		}
	}
	if w.Opt.FinalProbe && w.Run.End == 0 {
		rd := w.Rounds[len(w.Rounds)-1]
		if rd.MaxHeld < w.Max {
			add("pool-capacity-lost", fmt.Sprintf("max=%d", w.Max), fmt.Sprintf("after all requests the pool (max %d) let only %d probe requests run simultaneously", w.Max, rd.MaxHeld))
		} else {
			w.Out.count("probe/final_round_all_instances_served", 1)
		}
	}
	if w.RestoreErr != "" {
		add("mgmt-panic", "restore", "re-installing the initial rules before the final probe round failed: "+firstLine(w.RestoreErr))
	}
	// containment of the ordinary requests (a panic in a request that was not built to panic, ...) and
	// evidence of two in-flight requests on one instance.  When admins change the rule set during the
	// run only the clauses that do not depend on the rule set are kept.
	for _, v := range CheckPoolCalls(w) {
		if w.NAdmins > 0 {
			switch v.Clause {
			case "foreign-request-data", "stray-event", "api-panic", "event-after-return":
			default:
				continue
			}
		}
		out = append(out, v)
	}
	for ai, ops := range w.Ops {
		for k, op := range ops {
			if r := w.OpRes[ai][k]; r.Panicked != "" {
				add("mgmt-panic", opKindNames[op.Kind], fmt.Sprintf("management operation %s panicked: %s", op, firstLine(r.Panicked)))
			}
		}
	}
	return out
}

func (w *W2Run) controllerRound(rd *Round, call int) (int, bool) {
	for i, c := range rd.Calls {
		if c == call {
			return i, true
		}
	}
	return 0, false
}

// OracleC06: request isolation.
func OracleC06(w *W2Run) []Violation {
	out := CheckPoolCalls(w)
	for _, c := range w.Sc.Calls {
		c.mu.Lock()
		if c.Done && c.Resp != nil && *c.Resp != c.RespAtReturn {
			out = append(out, Violation{Clause: "request-data-modified-after-return", Method: MethodNames[c.Method], Call: c.Idx,
				Msg: fmt.Sprintf("%s: the request's Resp object was %+v when the call returned and is %+v at the end of the run", c, c.RespAtReturn, *c.Resp)})
		}
		c.mu.Unlock()
	}
	return out
}

// ---- C07: hot updates are atomic per execution and visible afterwards -----------------

type updRec struct {
	op         *MgmtOp
	begin, end int64
	name       string
}

func stateChanging(o *MgmtOp) bool {
	switch o.Kind {
	case OpFull, OpIncr, OpClear:
		return true
	case OpRemove:
		return len(o.Names) > 0
	}
	return false
}

// matchesState reports whether the observed execution of a call is what state s prescribes.
func matchesState(w *W2Run, v *CallView, s SetModel) (bool, string) {
	for _, x := range v.Execs {
		m, ok := s[x.Rule]
		if !ok {
			return false, fmt.Sprintf("rule %d ran but is not in the set", x.Rule)
		}
		if m.Ver != x.Ver {
			return false, fmt.Sprintf("rule %d ran as v%d, the set has v%d", x.Rule, x.Ver, m.Ver)
		}
	}
	if len(s) == 0 {
		return true, ""
	}
	rs := s.ruleSet()
	vs := CheckAgainstSpecs(v, SpecsForView(v, rs, w.EM), rs)
	if len(vs) > 0 {
		return false, vs[0].Clause + ": " + vs[0].Msg
	}
	return true, ""
}

func obsSet(v *CallView) string {
	s := "{"
	for i, x := range v.Execs {
		if i > 0 {
			s += " "
		}
		s += fmt.Sprintf("%d:v%d", x.Rule, x.Ver)
	}
	return s + "}"
}

// OracleC07 searches a serialisation of the successful updates, consistent with
// their real-time order, under which every execution ran exactly one installed
// version that is neither older than an update that had returned before the
// execution was invoked nor newer than one invoked after it returned.
func OracleC07(w *W2Run) []Violation {
	var out []Violation
	if w.Run.End != 0 {
		return out // abandoned run: the run-level verdict speaks
	}
	var ups []updRec
	for ai, ops := range w.Ops {
		for k, op := range ops {
			r := w.OpRes[ai][k]
			if !r.Done {
				continue
			}
			if r.Panicked != "" {
				out = append(out, Violation{Clause: "mgmt-panic", Method: opKindNames[op.Kind], Msg: fmt.Sprintf("management operation %s panicked: %s", op, firstLine(r.Panicked))})
				return out
			}
			if op.Invalid && r.Err == nil {
				out = append(out, Violation{Clause: "invalid-text-accepted", Method: opKindNames[op.Kind], Msg: fmt.Sprintf("%s: a broken text was accepted", op)})
			}
			if r.Err == nil && stateChanging(op) {
				ups = append(ups, updRec{op, r.Begin, r.End, fmt.Sprintf("a%d.%d %s", ai, k, op)})
			}
		}
	}
	sort.Slice(ups, func(i, j int) bool { return ups[i].begin < ups[j].begin })
	n := len(ups)
	w.Out.count("probe/successful_updates", int64(n))
	var execs []*CallView
	for _, c := range w.Sc.Calls {
		v := w.Views[c.Idx]
		c.mu.Lock()
		done := c.Done
		c.mu.Unlock()
		if done && v.CB >= 0 && v.CR >= 0 && !w.NilTag[c.Idx] {
			if c.Panicked {
				out = append(out, Violation{Clause: "api-panic", Detail: c.PanicSite, Method: MethodNames[c.Method], Msg: fmt.Sprintf("%s: panic escaped the call: %s", c, firstLine(c.PanicVal))})
				continue
			}
			execs = append(execs, v)
			for _, u := range ups {
				if u.begin > v.CB && u.end < v.CR {
					w.Out.count("fault_fired/update_landed_inside_an_execution", 1)
				}
			}
		}
	}
	init := modelOf(w.Rules)
	// the same (execution, state) pair recurs in most serialisations: judge it once
	type memoRes struct {
		ok  bool
		why string
	}
	memo := map[string]memoRes{}
	matchMemo := func(v *CallView, st SetModel) (bool, string) {
		key := fmt.Sprintf("%d|%v", v.C.Idx, st)
		if r, ok := memo[key]; ok {
			return r.ok, r.why
		}
		m, y := matchesState(w, v, st)
		memo[key] = memoRes{m, y}
		return m, y
	}
	// enumerate linear extensions
	perm := make([]int, 0, n)
	used := make([]bool, n)
	tried := 0
	var firstWhy string
	var found bool
	var rec func()
	check := func() bool {
		states := make([]SetModel, n+1)
		states[0] = init
		pos := make([]int, n)
		for i, u := range perm {
			states[i+1] = states[i].apply(ups[u].op)
			pos[u] = i
		}
		for _, v := range execs {
			kmin, kmax := 0, n
			for u := range ups {
				if ups[u].end < v.CB && pos[u]+1 > kmin {
					kmin = pos[u] + 1
				}
				if ups[u].begin > v.CR && pos[u] < kmax {
					kmax = pos[u]
				}
			}
			ok := false
			why := ""
			for k := kmin; k <= kmax; k++ {
				m, y := matchMemo(v, states[k])
				if m {
					ok = true
					break
				}
				why += fmt.Sprintf(" [state %d %v: %s]", k, states[k], y)
			}
			if !ok {
				if firstWhy == "" {
					firstWhy = fmt.Sprintf("%s (invoked #%d, returned #%d) ran %s, which is not exactly one admissible installed version:%s", v.C, v.CB, v.CR, obsSet(v), why)
				}
				return false
			}
		}
		return true
	}
	rec = func() {
		if found || tried > 3000 {
			return
		}
		if len(perm) == n {
			tried++
			if check() {
				found = true
			}
			return
		}
		for i := 0; i < n; i++ {
			if used[i] {
				continue
			}
			// i may come next only if every update that returned before i was invoked is already placed
			ok := true
			for j := 0; j < n; j++ {
				if !used[j] && j != i && ups[j].end < ups[i].begin {
					ok = false
				}
			}
			if !ok {
				continue
			}
			used[i] = true
			perm = append(perm, i)
			rec()
			perm = perm[:len(perm)-1]
			used[i] = false
		}
	}
	rec()
	if !found && tried <= 3000 {
		names := ""
		for _, u := range ups {
			names += fmt.Sprintf("(%s #%d..#%d) ", u.name, u.begin, u.end)
		}
		m := ""
		if len(firstWhy) > 0 {
			m = firstWhy
		}
		meth := ""
		for _, v := range execs {
			_ = v
		}
		out = append(out, Violation{Clause: "not-one-installed-version", Method: meth, Msg: fmt.Sprintf("no serialisation of the %d successful updates %sexplains every execution; under the first one tried: %s", n, names, m)})
	}
	if tried > 3000 {
		w.Out.count("probe/c07_serialisations_cap_hit", 1)
	}
	return out
}
