package h

import (
	"fmt"
	"sort"
)

// activeInterval returns the span of rule events of a request (ok=false: it ran no rule).
func activeInterval(v *CallView) (lo, hi int64, ok bool) {
	for _, x := range v.Execs {
		if !ok || x.First < lo {
			lo = x.First
		}
		if !ok || x.Last > hi {
			hi = x.Last
		}
		ok = true
	}
	return
}

// OracleC17: at most max requests inside rules at once; a request that finds
// every instance busy waits; after everything, max simultaneous requests still fit.
func OracleC17(w *W2Run) []Violation {
	var out []Violation
	add := func(clause, detail, msg string) {
		out = append(out, Violation{Clause: clause, Detail: detail, Msg: msg})
	}
	type pt struct {
		seq   int64
		delta int
		call  int
	}
	var pts []pt
	for _, c := range w.Sc.Calls {
		if lo, hi, ok := activeInterval(w.Views[c.Idx]); ok {
			pts = append(pts, pt{lo, +1, c.Idx}, pt{hi, -1, c.Idx})
		}
	}
	sort.Slice(pts, func(i, j int) bool {
		if pts[i].seq != pts[j].seq {
			return pts[i].seq < pts[j].seq
		}
		return pts[i].delta > pts[j].delta
	})
	cur, worst := 0, 0
	inside := map[int]bool{}
	var worstSet []int
	for _, p := range pts {
		if p.delta > 0 {
			inside[p.call] = true
			cur++
			if cur > worst {
				worst = cur
				worstSet = worstSet[:0]
				for c := range inside {
					worstSet = append(worstSet, c)
				}
			}
		} else {
			delete(inside, p.call)
			cur--
		}
	}
	w.Out.count("probe/max_requests_inside_rules_at_once", 0)
	if worst >= w.Max {
		w.Out.count("probe/all_instances_busy_simultaneously", 1)
	}
	if worst > w.Max {
		sort.Ints(worstSet)
		add("more-than-max-in-flight", fmt.Sprintf("max=%d", w.Max), fmt.Sprintf("pool (min %d, max %d): %d requests were inside rules at the same time: calls %v", w.Min, w.Max, worst, worstSet))
	}
	for _, rd := range w.Rounds {
		if len(rd.Waiters) == 0 {
			continue
		}
		for _, wc := range rd.Waiters {
			v := w.Views[wc]
			if rd.FullSeq < 0 || v.CB < rd.FullSeq {
				continue // the extra request arrived before every instance was held: nothing to judge
			}
			w.Out.count("probe/request_arrived_while_all_instances_held", 1)
			rel := rd.RelSeq
			if !rd.released {
				rel = int64(len(w.Run.Events)) + 1
			}
			if lo, _, ok := activeInterval(v); ok && lo < rel {
				add("request-did-not-wait", "ran", fmt.Sprintf("%s started running rules (#%d) while all %d instances were still held (released at #%d)", v.C, lo, w.Max, rel))
			} else if v.CR >= 0 && v.CR < rel {
				add("request-did-not-wait", "returned", fmt.Sprintf("%s returned (#%d, flags %d) while all %d instances were still held (released at #%d): it must wait, not fail", v.C, v.CR, v.Flags, w.Max, rel))
			} else if v.CR >= 0 {
				w.Out.count("probe/request_waited_for_an_engine", 1)
			}
		}
	}
	if w.Opt.FinalProbe && w.Run.End == 0 {
		rd := w.Rounds[len(w.Rounds)-1]
		if rd.MaxHeld < w.Max {
			add("pool-capacity-lost", fmt.Sprintf("max=%d", w.Max), fmt.Sprintf("after all requests the pool (max %d) let only %d probe requests run simultaneously", w.Max, rd.MaxHeld))
		} else {
			w.Out.count("probe/final_round_all_instances_served", 1)
		}
	}
	// containment of the ordinary requests (a panic in a request that was not built to panic, ...)
	for _, v := range CheckPoolCalls(w) {
		out = append(out, v)
	}
	return out
}

// OracleC06: request isolation.
func OracleC06(w *W2Run) []Violation {
	out := CheckPoolCalls(w)
	for _, c := range w.Sc.Calls {
		c.mu.Lock()
		if c.Done && c.Resp != nil && *c.Resp != c.RespAtReturn {
			out = append(out, Violation{Clause: "request-data-modified-after-return", Method: MethodNames[c.Method], Call: c.Idx,
				Msg: fmt.Sprintf("%s: the request's Resp object was %+v when the call returned and is %+v at the end of the run", c, c.RespAtReturn, *c.Resp)})
		}
		c.mu.Unlock()
	}
	return out
}
