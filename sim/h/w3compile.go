package h

import (
	"fmt"
	"regexp"
	"sort"
	"strconv"
	"strings"

	"github.com/bilibili/gengine/builder"
	"github.com/bilibili/gengine/context"
	"github.com/bilibili/gengine/engine"
	"verif/sim/simrt"
)

// C10: compile faults inside operation histories.  Every generated text is
// handed to all five compile entry points from equal model states.

const (
	txValid     = iota // generated from the grammar, rule set known
	txBroken           // broken on purpose: nobody may accept it
	txDuplicate        // defines one rule name twice: nobody may accept it
	txMutated          // token-level mutation of a valid text: validity unknown, only agreement is judged
	txStray            // stray bytes inserted: validity unknown
	txEmpty            // empty / blank / comment-only
	txBytes            // arbitrary bytes
	txTruncated        // a valid text, optionally followed by the beginning of another rule, cut off after some token
)

var txNames = [...]string{"valid", "broken", "duplicate-name", "token-mutated", "stray-bytes", "empty", "arbitrary-bytes", "truncated"}

var entryNames = [...]string{"BuildRuleFromString", "BuildRuleWithIncremental", "NewGenginePool", "UpdatePooledRules", "UpdatePooledRulesIncremental"}

type compileOp struct {
	Class int
	Text  string
	Rules []MRuleDef
	// what the "mixed history" twins (one builder, one pool) do with this text
	MixKind  int // 0 full, 1 incremental, 2 removal of MixNames, 3 clear (pool: ClearPoolRules, builder twin: a fresh builder); 2 and 3 do not use the text
	MixNames []string
}

var tokRe = regexp.MustCompile(`"[^"\n]*"|//[^\n]*|[A-Za-z_@][A-Za-z0-9_.]*|[0-9]+|:=|\+=|-=|==|!=|>=|<=|&&|\|\||[^\sA-Za-z0-9_]`)

var tokPool = []string{"rule", "begin", "end", "{", "}", "(", ")", "\"x\"", "1", "=", "+", "if", "else", "for", "conc", "return", "salience", ";", ",", "x", "@name", "@id", "nil", "true", "-", "H.S", "[", "]", "forRange", "break", "!", "0.5"}

var strayBytes = []string{"#", "$", "`", "?", "\x01", "~", "%", "é", "\\", "'", "^", "&", "|", "\""}

// richBody renders a rule with a few more constructs than SalRule, still cheap to compile.
func (g *G) richRule(id, sal, ver int) string {
	var b strings.Builder
	fmt.Fprintf(&b, "rule \"%d\" \"d%dv%d\" salience %d\nbegin\nH.S(%d,%d)\nH.Sal(%d,@sal)\n", id, id, ver, sal, id, ver, id)
	for k := g.Intn(3); k > 0; k-- {
		switch g.Intn(6) {
		case 0:
			b.WriteString("x = 1 + 2 * 3\n")
		case 1:
			b.WriteString("if 3 > 2 {\ny = \"a\"\n} else {\ny = \"b\"\n}\n")
		case 2:
			b.WriteString("conc {\na = 1\nb = 2\n}\n")
		case 3:
			b.WriteString("for i = 0; i < 2; i += 1 {\nz = i\n}\n")
		case 4:
			b.WriteString("// a comment\n")
		case 5:
			b.WriteString("w = !(1 == 2) && true\n")
		}
	}
	fmt.Fprintf(&b, "return %d\nend\n", ver*1000+id)
	return b.String()
}

func (g *G) genCompileOp(nNames int, ver *int, valid *[]*compileOp) *compileOp {
	if len(*valid) > 0 && g.Pct(15) {
		h := (*valid)[g.Intn(len(*valid))]
		op := &compileOp{Class: txValid, Text: h.Text, Rules: h.Rules}
		g.mixFor(op, nNames)
		return op
	}
	op := g.genCompileOp1(nNames, ver)
	if op.Class == txValid {
		*valid = append(*valid, op)
	}
	g.mixFor(op, nNames)
	return op
}

func (g *G) mixFor(op *compileOp, nNames int) {
	op.MixKind = g.Intn(3)
	if g.Pct(12) {
		op.MixKind = 3
	}
	if op.MixKind == 2 {
		for id := 1; id <= nNames+1; id++ {
			if g.Pct(40) {
				op.MixNames = append(op.MixNames, strconv.Itoa(id))
			}
		}
		if len(op.MixNames) > 0 && g.Pct(25) {
			op.MixNames = append(op.MixNames, op.MixNames[g.Intn(len(op.MixNames))])
		}
	}
}

func (g *G) genCompileOp1(nNames int, ver *int) *compileOp {
	op := &compileOp{}
	*ver++
	k := g.Range(1, 3)
	if k > nNames {
		k = nNames
	}
	ids := make([]int, nNames)
	for i := range ids {
		ids[i] = i + 1
	}
	for i := len(ids) - 1; i > 0; i-- {
		j := i - g.Intn(i+1)
		ids[i], ids[j] = ids[j], ids[i]
	}
	var b strings.Builder
	for _, id := range ids[:k] {
		sal := g.Salience(2) // now and then a boundary value (±MaxInt64, ±2^62 ...): positions are computed from saliences
		op.Rules = append(op.Rules, MRuleDef{id, sal, *ver})
		b.WriteString(g.richRule(id, sal, *ver))
	}
	op.Text = b.String()
	switch c := g.Intn(12); {
	case c == 11:
		op.Class = txTruncated
		full := op.Text + g.richRule(nNames+1, 0, *ver)
		toks := tokRe.FindAllStringIndex(full, -1)
		// cut after a token of the appended rule (so that what precedes is complete) or anywhere
		lo := 0
		if g.Intn(2) == 0 {
			for i, t := range toks {
				if t[0] >= len(op.Text) {
					lo = i
					break
				}
			}
		}
		k := lo + g.Intn(len(toks)-lo)
		op.Text = full[:toks[k][1]]
		if g.Intn(2) == 0 {
			op.Text += "\n"
		}
	case c == 10:
		op.Class = txBytes
		n := 1 + g.Intn(40)
		bs := make([]byte, n)
		alphabet := []byte("rule \"begin end{}()=+-*/<>!&|;,.@#$%\x00\x7f\xff\xc3\n\t0123456789abcXYZ")
		for i := range bs {
			bs[i] = alphabet[g.Intn(len(alphabet))]
		}
		op.Text = string(bs)
	case c < 3:
		op.Class = txValid
	case c == 3:
		op.Class = txBroken
		op.Text = breakText(op.Text, [...]int{0, 1, 2, 4}[g.Intn(4)])
	case c == 4:
		op.Class = txDuplicate
		// repeat the first rule, possibly with another body / salience
		r := op.Rules[g.Intn(len(op.Rules))]
		dup := g.richRule(r.ID, g.Range(0, 4)-2, *ver)
		if g.Intn(2) == 0 {
			op.Text = op.Text + dup
		} else {
			op.Text = dup + op.Text
		}
	case c < 8:
		op.Class = txMutated
		toks := tokRe.FindAllString(op.Text, -1)
		for n := 1 + g.Intn(3); n > 0 && len(toks) > 2; n-- {
			i := g.Intn(len(toks))
			switch g.Intn(4) {
			case 0: // drop
				toks = append(toks[:i], toks[i+1:]...)
			case 1: // duplicate
				toks = append(toks[:i+1], toks[i:]...)
			case 2: // swap with the next
				if i+1 < len(toks) {
					toks[i], toks[i+1] = toks[i+1], toks[i]
				}
			case 3: // replace by a token of another class
				toks[i] = tokPool[g.Intn(len(tokPool))]
			}
		}
		op.Text = strings.Join(toks, "\n")
	case c == 8:
		op.Class = txStray
		for n := 1 + g.Intn(2); n > 0; n-- {
			i := g.Intn(len(op.Text) + 1)
			op.Text = op.Text[:i] + strayBytes[g.Intn(len(strayBytes))] + op.Text[i:]
		}
	default:
		op.Class = txEmpty
		op.Text = [...]string{"", " ", "\n\t ", "// only a comment\n", "\n\n"}[g.Intn(5)]
	}
	return op
}

type objObs struct {
	Rules []obsRule
	Exist []bool
	Err   bool
	Panic string
}

// key is the installed set as observed, independent of the order among equal saliences.
func (o objObs) key() string {
	var es []string
	for _, r := range o.Rules {
		es = append(es, fmt.Sprintf("%d/v%d/s%d", r.ID, r.Ver, r.Sal))
	}
	sort.Strings(es)
	return strings.Join(es, " ") + " " + fmt.Sprint(o.Exist)
}

// RunW3Compile is the C10 workload.
func RunW3Compile(plan, sched *simrt.Source, trace bool) *RunOut {
	g := &G{S: plan}
	o := &RunOut{}
	cfg := g.GenConfig(trace)
	cfg.PMask, cfg.PProb = nil, 0 // single task: pre-emption points are irrelevant
	nNames := g.Range(1, 4)
	nOps := 1 + g.Intn(deep(5, 4))
	ver := 1
	init := &compileOp{Class: txValid}
	{
		k := g.Range(1, nNames)
		var b strings.Builder
		for id := 1; id <= k; id++ {
			sal := g.Range(0, 4) - 2
			init.Rules = append(init.Rules, MRuleDef{id, sal, 1})
			b.WriteString(SalRule(id, sal, 1))
		}
		init.Text = b.String()
	}
	var ops []*compileOp
	valid := []*compileOp{init}
	for i := 0; i < nOps; i++ {
		ops = append(ops, g.genCompileOp(nNames, &ver, &valid))
	}
	o.Describe = func() []string {
		out := []string{fmt.Sprintf("config: shuffleMaps=%v names 1..%d", cfg.ShuffleMaps, nNames), "--- initial text (all five objects) ---", init.Text}
		for i, op := range ops {
			out = append(out, fmt.Sprintf("--- text %d (%s) ---", i, txNames[op.Class]), op.Text)
		}
		return out
	}
	sc := &Scenario{}
	sc.Index()
	probeNames := make([]string, nNames+1)
	for i := range probeNames {
		probeNames[i] = strconv.Itoa(i + 1)
	}
	nextCall := 0
	newCall := func() *Call {
		c := &Call{Idx: nextCall, Method: MExecute, B: true, Plan: map[int]*RulePlan{}}
		nextCall++
		sc.Calls = append(sc.Calls, c)
		return c
	}
	type step struct {
		verdict [5]bool // accepted?
		panicV  [5]string
		obs     [5]objObs // after the operation: 0 rbF, 1 rbI, 2 new pool, 3 pF, 4 pI
		calls   [5]*Call
		// mixed-history twins: a builder and a pool receiving the same full / incremental / removal sequence
		mixOK    [2]bool
		mixPanic [2]string
		mixObs   [2]objObs
		mixCalls [2]*Call
	}
	steps := make([]step, nOps+1)
	var rbF, rbI, rbM *builder.RuleBuilder
	var pF, pI, pM *engine.GenginePool
	eng := engine.NewGengine()
	var setupErr error
	obsBuilder := func(rb *builder.RuleBuilder, c *Call) objObs {
		var ob objObs
		func() {
			defer func() {
				if e := recover(); e != nil {
					ob.Panic = fmt.Sprint(e)
				}
			}()
			InvokeEngine(sc, eng, rb, c)
			ob.Exist = rb.IsExist(probeNames)
		}()
		return ob
	}
	obsPool := func(p *engine.GenginePool, c *Call) objObs {
		var ob objObs
		func() {
			defer func() {
				if e := recover(); e != nil {
					ob.Panic = fmt.Sprint(e)
				}
			}()
			InvokePool(sc, p, c)
			ob.Exist = p.IsExist(probeNames)
		}()
		return ob
	}
	guard := func(f func() error) (ok bool, pv string) {
		defer func() {
			if e := recover(); e != nil {
				ok, pv = false, fmt.Sprint(e)
			}
		}()
		return f() == nil, ""
	}
	run := simrt.NewRun(cfg, sched)
	run.Execute(func() {
		rbF = builder.NewRuleBuilder(context.NewDataContext())
		rbI = builder.NewRuleBuilder(context.NewDataContext())
		if setupErr = rbF.BuildRuleFromString(init.Text); setupErr != nil {
			return
		}
		if setupErr = rbI.BuildRuleFromString(init.Text); setupErr != nil {
			return
		}
		if pF, setupErr = engine.NewGenginePool(1, 2, engine.SortModel, init.Text, nil); setupErr != nil {
			return
		}
		if pI, setupErr = engine.NewGenginePool(1, 2, engine.SortModel, init.Text, nil); setupErr != nil {
			return
		}
		rbM = builder.NewRuleBuilder(context.NewDataContext())
		if setupErr = rbM.BuildRuleFromString(init.Text); setupErr != nil {
			return
		}
		if pM, setupErr = engine.NewGenginePool(1, 2, engine.SortModel, init.Text, nil); setupErr != nil {
			return
		}
		st := &steps[0]
		for k := range st.calls {
			st.calls[k] = newCall()
		}
		st.obs[0], st.obs[1] = obsBuilder(rbF, st.calls[0]), obsBuilder(rbI, st.calls[1])
		st.obs[3], st.obs[4] = obsPool(pF, st.calls[3]), obsPool(pI, st.calls[4])
		for i, op := range ops {
			st := &steps[i+1]
			for k := range st.calls {
				st.calls[k] = newCall()
			}
			text := op.Text
			st.verdict[0], st.panicV[0] = guard(func() error { return rbF.BuildRuleFromString(text) })
			st.verdict[1], st.panicV[1] = guard(func() error { return rbI.BuildRuleWithIncremental(text) })
			var np *engine.GenginePool
			st.verdict[2], st.panicV[2] = guard(func() error {
				var e error
				np, e = engine.NewGenginePool(1, 2, engine.SortModel, text, nil)
				return e
			})
			st.verdict[3], st.panicV[3] = guard(func() error { return pF.UpdatePooledRules(text) })
			st.verdict[4], st.panicV[4] = guard(func() error { return pI.UpdatePooledRulesIncremental(text) })
			for _, pv := range st.panicV {
				if pv != "" {
					return
				}
			}
			st.obs[0], st.obs[1] = obsBuilder(rbF, st.calls[0]), obsBuilder(rbI, st.calls[1])
			if np != nil && st.verdict[2] {
				st.obs[2] = obsPool(np, st.calls[2])
			}
			st.obs[3], st.obs[4] = obsPool(pF, st.calls[3]), obsPool(pI, st.calls[4])
			// the mixed-history twins
			st.mixCalls[0], st.mixCalls[1] = newCall(), newCall()
			switch op.MixKind {
			case 0:
				st.mixOK[0], st.mixPanic[0] = guard(func() error { return rbM.BuildRuleFromString(text) })
				st.mixOK[1], st.mixPanic[1] = guard(func() error { return pM.UpdatePooledRules(text) })
			case 1:
				st.mixOK[0], st.mixPanic[0] = guard(func() error { return rbM.BuildRuleWithIncremental(text) })
				st.mixOK[1], st.mixPanic[1] = guard(func() error { return pM.UpdatePooledRulesIncremental(text) })
			case 3:
				// clear: the pool has an operation for it; for the builder twin "no rules" is a fresh builder
				rbM = builder.NewRuleBuilder(context.NewDataContext())
				st.mixOK[0] = true
				st.mixOK[1], st.mixPanic[1] = guard(func() error { pM.ClearPoolRules(); return nil })
			default:
				names := op.MixNames
				st.mixOK[0], st.mixPanic[0] = guard(func() error { return rbM.RemoveRules(names) })
				st.mixOK[1], st.mixPanic[1] = guard(func() error { return pM.RemoveRules(names) })
			}
			if st.mixPanic[0] != "" || st.mixPanic[1] != "" {
				return
			}
			st.mixObs[0], st.mixObs[1] = obsBuilder(rbM, st.mixCalls[0]), obsPool(pM, st.mixCalls[1])
		}
	})
	fillStats(o, run)
	o.PlanRec, o.SchedRec = plan.Rec, sched.Rec
	if setupErr != nil {
		o.Infra = "initial valid text rejected: " + setupErr.Error() + "\n" + init.Text
		return o
	}
	if run.End == simrt.EndInfra {
		o.Infra = run.EndInfo
		return o
	}
	for i := range steps {
		for k := range steps[i].obs {
			if c := steps[i].calls[k]; c != nil {
				steps[i].obs[k].Rules = obsFromEvents(run.Events, c.Idx)
			}
		}
		for k := range steps[i].mixObs {
			if c := steps[i].mixCalls[k]; c != nil {
				steps[i].mixObs[k].Rules = obsFromEvents(run.Events, c.Idx)
			}
		}
	}
	var all []Violation
	add := func(clause, method, detail, msg string) {
		all = append(all, Violation{Clause: clause, Method: method, Detail: detail, Msg: msg})
	}
	incrUnknown := false
	fullM, incrM := SetModel{}, SetModel{}
	for _, r := range init.Rules {
		fullM[r.ID] = MRule{r.Sal, r.Ver}
		incrM[r.ID] = MRule{r.Sal, r.Ver}
	}
	for i, op := range ops {
		st := &steps[i+1]
		prev := &steps[i]
		where := fmt.Sprintf("text %d (%s)", i, txNames[op.Class])
		bad := false
		for k, pv := range st.panicV {
			if pv != "" {
				add("compile-panic", entryNames[k], txNames[op.Class], fmt.Sprintf("%s: %s panicked: %s\n%s", where, entryNames[k], firstLine(pv), op.Text))
				bad = true
			}
		}
		if bad {
			break
		}
		o.count("compile_texts/"+txNames[op.Class], 1)
		nAcc := 0
		for _, v := range st.verdict {
			if v {
				nAcc++
			}
		}
		if nAcc > 0 {
			o.count("compile_texts_accepted/"+txNames[op.Class], 1)
		} else {
			o.count("fault_fired/compile_fault", 1)
		}
		if nAcc != 0 && nAcc != 5 {
			var acc, rej []string
			for k, v := range st.verdict {
				if v {
					acc = append(acc, entryNames[k])
				} else {
					rej = append(rej, entryNames[k])
				}
			}
			odd := acc
			tag := "accepts"
			if len(rej) < len(acc) {
				odd, tag = rej, "rejects"
			}
			add("entry-points-disagree", strings.Join(odd, "+"), tag, fmt.Sprintf("%s is accepted by %v and rejected by %v:\n%s", where, acc, rej, op.Text))
			break
		}
		switch op.Class {
		case txBroken, txDuplicate:
			if nAcc > 0 {
				add("invalid-text-accepted", "", txNames[op.Class], fmt.Sprintf("%s was accepted although no entry point may accept it:\n%s", where, op.Text))
			}
		case txValid:
			if nAcc == 0 {
				add("valid-text-rejected", "", "", fmt.Sprintf("%s was rejected:\n%s", where, op.Text))
			}
		}
		if len(all) > 0 {
			break
		}
		for k := range st.obs {
			if k == 2 {
				continue
			}
			if st.obs[k].Panic != "" {
				add("api-panic", entryNames[k], "", fmt.Sprintf("%s: observing the object behind %s panicked: %s", where, entryNames[k], firstLine(st.obs[k].Panic)))
			}
		}
		if nAcc == 0 {
			// all-or-nothing: nothing may have changed
			for _, k := range []int{0, 1, 3, 4} {
				if st.obs[k].key() != prev.obs[k].key() {
					add("failed-compile-changed-state", entryNames[k], "", fmt.Sprintf("%s was rejected by %s but the installed rule set changed from [%s] to [%s]\n%s", where, entryNames[k], prev.obs[k].key(), st.obs[k].key(), op.Text))
				}
			}
		} else {
			if op.Class == txValid {
				nf := SetModel{}
				for _, r := range op.Rules {
					nf[r.ID] = MRule{r.Sal, r.Ver}
					incrM[r.ID] = MRule{r.Sal, r.Ver}
				}
				fullM = nf
				for _, k := range []int{0, 2, 3} {
					kk := k
					checkObserved(st.obs[k].Rules, fullM, where+" via "+entryNames[k], func(clause, detail, msg string) { add(clause, entryNames[kk], detail, msg) })
				}
				if !incrUnknown {
					for _, k := range []int{1, 4} {
						kk := k
						checkObserved(st.obs[k].Rules, incrM, where+" via "+entryNames[k], func(clause, detail, msg string) { add(clause, entryNames[kk], detail, msg) })
					}
				} else if a, b := st.obs[1].key(), st.obs[4].key(); a != b {
					add("entry-points-install-different-sets", "incremental", "", fmt.Sprintf("%s: BuildRuleWithIncremental installed [%s], UpdatePooledRulesIncremental installed [%s]\n%s", where, a, b, op.Text))
				}
			} else {
				// validity unknown: the twins must have installed the same thing
				if a, b := st.obs[0].key(), st.obs[3].key(); a != b {
					add("entry-points-install-different-sets", "full", "", fmt.Sprintf("%s: BuildRuleFromString installed [%s], UpdatePooledRules installed [%s]\n%s", where, a, b, op.Text))
				}
				if a, b := st.obs[0].key(), st.obs[2].key(); a != b {
					add("entry-points-install-different-sets", "constructor", "", fmt.Sprintf("%s: BuildRuleFromString installed [%s], NewGenginePool installed [%s]\n%s", where, a, b, op.Text))
				}
				if a, b := st.obs[1].key(), st.obs[4].key(); a != b {
					add("entry-points-install-different-sets", "incremental", "", fmt.Sprintf("%s: BuildRuleWithIncremental installed [%s], UpdatePooledRulesIncremental installed [%s]\n%s", where, a, b, op.Text))
				}
				// a text of unknown meaning was merged: from here on the incremental objects are
				// only compared with each other, never with the model
				incrUnknown = true
			}
		}
		if len(all) > 0 {
			break
		}
		// mixed histories: the builder and the pool were given the same sequence of full builds,
		// incremental builds and removals, so they must agree on the verdict and on the installed set
		mk := [...]string{"full", "incremental", "remove", "clear"}[op.MixKind]
		for k, pv := range st.mixPanic {
			if pv != "" {
				add("compile-panic", [...]string{"builder", "pool"}[k]+"-"+mk, txNames[op.Class], fmt.Sprintf("%s: mixed history (%s): panicked: %s", where, mk, firstLine(pv)))
			}
		}
		if len(all) > 0 {
			break
		}
		// (the verdicts of the two compile steps must agree; whether a *removal* - of nothing, say - is answered with an
		// error is not a compile verdict and not C10's business: there only the installed sets are compared)
		if st.mixOK[0] != st.mixOK[1] && op.MixKind != 2 {
			add("entry-points-disagree", "mixed-history-"+mk, "", fmt.Sprintf("%s: in a mixed history the builder's %s returned ok=%v and the pool's ok=%v\n%s", where, mk, st.mixOK[0], st.mixOK[1], op.Text))
		} else if a, b := st.mixObs[0].key(), st.mixObs[1].key(); a != b {
			add("entry-points-install-different-sets", "mixed-history-"+mk, "", fmt.Sprintf("%s: after the same history of full / incremental / removal operations the builder holds [%s] and the pool [%s] (last operation: %s)\n%s", where, a, b, mk, op.Text))
		}
		if len(all) > 0 {
			break
		}
	}
	for _, v := range runLevel(run, "compile history") {
		all = append(all, v)
	}
	o.Violations = all
	o.NonTrivial = true
	return o
}
