package h

import (
	"fmt"
	"strconv"

	"github.com/bilibili/gengine/engine"
	"verif/sim/simrt"
	sync "verif/sim/simsync"
)

// PoolModel is the reference model of a pool's management state (C16).
type PoolModel struct {
	Set     SetModel
	EM      int
	Cleared bool
}

func (m PoolModel) String() string {
	return fmt.Sprintf("%v execModel=%d cleared=%v", m.Set, m.EM, m.Cleared)
}

// next computes the model successor; ok=false means the operation must fail and change nothing.
func (m PoolModel) next(o *MgmtOp) (PoolModel, bool) {
	switch o.Kind {
	case OpFull:
		if o.Invalid {
			return m, false
		}
		return PoolModel{m.Set.apply(o), m.EM, false}, true
	case OpIncr:
		if o.Invalid {
			return m, false
		}
		return PoolModel{m.Set.apply(o), m.EM, false}, true
	case OpRemove:
		if len(o.Names) == 0 {
			return m, false
		}
		return PoolModel{m.Set.apply(o), m.EM, m.Cleared}, true
	case OpClear:
		return PoolModel{SetModel{}, m.EM, true}, true
	case OpSetEM:
		if o.EM < 1 || o.EM > 4 {
			return m, false
		}
		return PoolModel{m.Set, o.EM, m.Cleared}, true
	}
	return m, true
}

type queryOut struct {
	Exist   []bool
	Number  int
	Sal     []int64
	SalErr  []bool
	Desc    []string
	DescErr []bool
	EM      int
	Panic   string
}

// RunW2Scripted is the C16 workload: one task alternates management
// operations, queries and probe rounds that put a request on every engine
// instance of the pool at once.
func RunW2Scripted(prof *Profile, plan, sched *simrt.Source, trace bool) *RunOut {
	g := &G{S: plan}
	o := &RunOut{}
	cfg := g.GenConfig(trace)
	rules := g.GenRuleSet(prof)
	text := RenderSet(rules)
	g.Hist = append(g.Hist, initialOp(rules, text))
	size := poolSizes[g.Intn(len(poolSizes))]
	min, max := size[0], size[1]
	em := 1 + g.Intn(4)
	sc := &Scenario{Universe: rules}
	sc.Index()
	nOps := 1 + g.Intn(deep(10, 8))
	ver := 1
	model := PoolModel{Set: modelOf(rules), EM: em}
	var ops []*MgmtOp
	models := []PoolModel{model} // models[i+1]: expected state after op i
	mustFail := []bool{}
	kinds := []int{OpFull, OpIncr, OpIncr, OpRemove, OpRemove, OpClear, OpSetEM, OpSetEM}
	for i := 0; i < nOps; i++ {
		op := g.GenPoolMgmtOp(rules, model.Set, &ver, kinds, 12)
		nm, ok := model.next(op)
		ops = append(ops, op)
		mustFail = append(mustFail, !ok)
		model = nm
		models = append(models, model)
	}
	// probe rounds: after construction and after every operation
	type round struct {
		calls []*Call
		rd    *Round
	}
	ct := &controller{byCall: map[int]*Round{}, heldOnce: map[int]bool{}}
	nextCall := 0
	mkRound := func(m PoolModel) round {
		var r round
		r.rd = &Round{Need: max, wTask: map[int]int32{}, wBase: map[int]int64{}, FullSeq: -1}
		for i := 0; i < max; i++ {
			pp := *prof
			pp.Methods = []int{MPoolEMMulti, MPoolEMMulti, MPoolEMMulti, MPoolSelEM, MExecute, MConcurrent, MMix, MInverseMix, MSelectedCtl, MDAG}
			c := g.GenCall(&pp, rules, nextCall)
			nextCall++
			c.Client = i
			c.Hold = len(m.Set) > 0 && !m.Cleared
			sc.Calls = append(sc.Calls, c)
			r.calls = append(r.calls, c)
			r.rd.Calls = append(r.rd.Calls, c.Idx)
			ct.byCall[c.Idx] = r.rd
		}
		ct.rounds = append(ct.rounds, r.rd)
		return r
	}
	rounds := []round{mkRound(models[0])}
	for i := range ops {
		rounds = append(rounds, mkRound(models[i+1]))
	}
	o.Describe = func() []string {
		out := []string{fmt.Sprintf("config: strategy=%d stick=%d‰ shuffleMaps=%v psites=%d‰; pool min=%d max=%d execModel=%d", cfg.Strategy, cfg.StickPermil, cfg.ShuffleMaps, cfg.PProb, min, max, em)}
		for _, r := range rules {
			out = append(out, "rule "+r.String())
		}
		out = append(out, "--- initial rule text ---", text, "--- script ---", fmt.Sprintf("initial state %v", models[0]))
		for _, c := range rounds[0].calls {
			out = append(out, "  probe "+c.String())
		}
		for i, op := range ops {
			mf := ""
			if mustFail[i] {
				mf = " (must fail, state unchanged)"
			}
			out = append(out, fmt.Sprintf("op %d: %s%s => %v", i, op, mf, models[i+1]))
			for _, c := range rounds[i+1].calls {
				out = append(out, "  probe "+c.String())
			}
		}
		return out
	}
	var ids []string
	for _, r := range rules {
		ids = append(ids, strconv.Itoa(r.ID))
	}
	ids = append(ids, "97")
	opRes := make([]opResult, nOps)
	queries := make([]queryOut, nOps+1)
	var pool *engine.GenginePool
	var initErr error
	query := func(q *queryOut) {
		defer func() {
			if e := recover(); e != nil {
				q.Panic = fmt.Sprint(e)
			}
		}()
		q.Exist = pool.IsExist(ids)
		q.Number = pool.GetRulesNumber()
		for _, id := range ids {
			s, e := pool.GetRuleSalience(id)
			q.Sal = append(q.Sal, s)
			q.SalErr = append(q.SalErr, e != nil)
			d, e2 := pool.GetRuleDesc(id)
			q.Desc = append(q.Desc, d)
			q.DescErr = append(q.DescErr, e2 != nil)
		}
		q.EM = pool.GetExecModel()
	}
	probe := func(r round) {
		var wg sync.WaitGroup
		for _, c := range r.calls {
			c := c
			wg.Add(1)
			simrt.Go(func() {
				InvokePool(sc, pool, c)
				wg.Done()
			})
		}
		wg.Wait()
	}
	run := simrt.NewRun(cfg, sched)
	run.Handler = ct.handler
	run.OnEvent = ct.onEvent
	run.AfterStep = ct.afterStep
	aborted := -1
	run.Execute(func() {
		pool, initErr = engine.NewGenginePool(int64(min), int64(max), em, text, nil)
		if initErr != nil {
			return
		}
		query(&queries[0])
		probe(rounds[0])
		for i, op := range ops {
			res := &opRes[i]
			res.Begin = simrt.Emit(EvMgmtB, int64(i), int64(op.Kind), 0)
			func() {
				defer func() {
					if e := recover(); e != nil {
						res.Panicked = fmt.Sprint(e)
					}
				}()
				res.Err = doPoolOp(pool, op)
			}()
			res.End = simrt.Emit(EvMgmtR, int64(i), int64(op.Kind), 0)
			res.Done = true
			if res.Panicked != "" {
				aborted = i
				return // the pool's lock state is unknown after a panic inside a management call
			}
			query(&queries[i+1])
			probe(rounds[i+1])
		}
	})
	fillStats(o, run)
	o.PlanRec, o.SchedRec = plan.Rec, sched.Rec
	if initErr != nil {
		o.Infra = "generated rule text rejected by NewGenginePool: " + initErr.Error() + "\n" + text
		return o
	}
	if run.End == simrt.EndInfra {
		o.Infra = run.EndInfo
		return o
	}
	if RaceMode {
		CollectRaces(o)
		o.NonTrivial = run.St.Decisions > 0
		return o
	}
	views := BuildViews(run, sc.Calls)
	var all []Violation
	checkState := func(i int, m PoolModel, q *queryOut, r round, after, kind string) bool {
		n0 := len(all)
		add := func(clause, detail, msg string) {
			all = append(all, Violation{Clause: clause, Method: "after-" + kind, Detail: detail, Msg: msg, Call: i})
		}
		if q.Panic != "" {
			add("mgmt-panic", "query", fmt.Sprintf("a query panicked after %s: %s", after, firstLine(q.Panic)))
			return false
		}
		for k, name := range ids {
			id, _ := strconv.Atoi(name)
			mr, want := m.Set[id]
			if k < len(q.Exist) && q.Exist[k] != want {
				add("query-disagrees", "IsExist", fmt.Sprintf("after %s: IsExist(%s)=%v, denoted state %v", after, name, q.Exist[k], m))
			}
			if k < len(q.SalErr) {
				if q.SalErr[k] == want {
					add("query-disagrees", "GetRuleSalience", fmt.Sprintf("after %s: GetRuleSalience(%s) error=%v, denoted state %v", after, name, q.SalErr[k], m))
				} else if want && q.Sal[k] != int64(mr.Sal) {
					add("query-disagrees", "GetRuleSalience", fmt.Sprintf("after %s: GetRuleSalience(%s)=%d, denoted state %v", after, name, q.Sal[k], m))
				}
				if q.DescErr[k] == want {
					add("query-disagrees", "GetRuleDesc", fmt.Sprintf("after %s: GetRuleDesc(%s) error=%v, denoted state %v", after, name, q.DescErr[k], m))
				} else if want && q.Desc[k] != fmt.Sprintf("d%dv%d", id, mr.Ver) {
					add("query-disagrees", "GetRuleDesc", fmt.Sprintf("after %s: GetRuleDesc(%s)=%q, denoted state %v", after, name, q.Desc[k], m))
				}
			}
		}
		if q.Number != len(m.Set) {
			add("query-disagrees", "GetRulesNumber", fmt.Sprintf("after %s: GetRulesNumber()=%d, denoted state %v", after, q.Number, m))
		}
		if q.EM != m.EM {
			add("query-disagrees", "GetExecModel", fmt.Sprintf("after %s: GetExecModel()=%d, denoted state %v", after, q.EM, m))
		}
		rs := m.Set.ruleSet()
		for _, c := range r.calls {
			v := views[c.Idx]
			if v.CB < 0 {
				continue
			}
			for _, x := range v.Execs {
				mr, ok := m.Set[x.Rule]
				if !ok {
					add("instance-runs-stale-rules", "", fmt.Sprintf("after %s: probe %s ran rule %d (v%d) which is not in the denoted state %v", after, c, x.Rule, x.Ver, m))
				} else if mr.Ver != x.Ver {
					add("instance-runs-stale-rules", "", fmt.Sprintf("after %s: probe %s ran rule %d as v%d, the denoted state %v has v%d", after, c, x.Rule, x.Ver, m, mr.Ver))
				}
			}
			if len(m.Set) == 0 {
				// "executions run nothing" is all the property says about an empty or cleared pool; whether such
				// a call reports an error is not specified (the stale-rules clause above already covers "ran something")
				if m.Cleared && v.CR >= 0 && v.Flags&2 != 0 {
					add("api-panic", "cleared-pool", fmt.Sprintf("after %s: probe %s on a cleared pool panicked", after, c))
				}
				continue
			}
			for _, vv := range CheckCall(sc, v, rs, m.EM) {
				vv.Msg = "after " + after + ": " + vv.Msg
				all = append(all, vv)
			}
		}
		if len(m.Set) > 0 && !m.Cleared && run.End == 0 {
			if r.rd.MaxHeld >= max {
				o.count("probe/every_instance_probed_at_once", 1)
			}
		}
		return len(all) == n0
	}
	ok := checkState(-1, models[0], &queries[0], rounds[0], "construction", "construction")
	for i, op := range ops {
		if !ok {
			break // later observations only repeat the first disagreement
		}
		r := opRes[i]
		if !r.Done {
			break
		}
		name := fmt.Sprintf("op %d (%s)", i, op)
		add := func(clause, detail, msg string) {
			all = append(all, Violation{Clause: clause, Method: opKindNames[op.Kind], Detail: detail, Msg: msg, Call: i})
		}
		o.count("mgmt_ops/"+opKindNames[op.Kind], 1)
		if op.Invalid {
			o.count("fault_fired/compile_fault", 1)
		}
		if r.Panicked != "" {
			prev := "fresh"
			if models[i].Cleared {
				prev = "after-clear"
			}
			add("mgmt-panic", prev, fmt.Sprintf("%s panicked in state %v: %s", name, models[i], firstLine(r.Panicked)))
			break
		}
		if mustFail[i] && r.Err == nil && op.Invalid {
			// a removal of no names or an unknown model number must leave the state alone (checked below through
			// the model); whether they also report an error is not part of the property.  A broken text must be refused.
			add("invalid-operation-accepted", "", fmt.Sprintf("%s: a broken rule text was accepted", name))
		}
		if !mustFail[i] && r.Err != nil {
			add("valid-operation-rejected", "", fmt.Sprintf("%s failed in state %v: %v", name, models[i], r.Err))
		}
		if models[i].Cleared && (op.Kind == OpFull || op.Kind == OpIncr) && !mustFail[i] {
			o.count("probe/update_after_clear", 1)
		}
		ok = checkState(i, models[i+1], &queries[i+1], rounds[i+1], name, opKindNames[op.Kind])
	}
	_ = aborted
	fl, fm := inFlightCalls(views)
	for _, v := range runLevel(run, fl) {
		v.Method = fm
		all = append(all, v)
	}
	countFaults(o, sc, views)
	o.Violations = all
	o.NonTrivial = run.St.Decisions > 0 || nOps >= 1
	return o
}
