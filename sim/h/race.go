package h

import (
	"fmt"
	"os"
	"sort"
	"strings"
)

// RaceMode is set by the worker when it was built with -race and runs the C19
// workloads: the oracle is the race detector's log, the per-call oracles (which
// would read task-written harness data) are skipped.
var RaceMode bool

// RaceLog is the path prefix given in GORACE=log_path=...; the runtime appends ".<pid>".
var RaceLog string

var raceOff int64

type raceAccess struct {
	Frames []string // "func file:line", innermost first
	Class  string   // own | user-reflect | harness | other
	Site   string   // file:line of the attributed frame
}

type RaceReport struct {
	A, B raceAccess
	Text string
}

const gpref = "github.com/bilibili/gengine/"

func classify(frames [][2]string) (class, site string) {
	i := 0
	for i < len(frames) && strings.HasPrefix(frames[i][0], "runtime.") {
		i++
	}
	if i < len(frames) && strings.HasPrefix(frames[i][0], "reflect.") {
		for i < len(frames) && (strings.HasPrefix(frames[i][0], "reflect.") || strings.HasPrefix(frames[i][0], "runtime.")) {
			i++
		}
		if i < len(frames) && strings.HasPrefix(frames[i][0], "verif/sim/simrt.Keys") {
			i++ // the rewritten map range: attribute to the caller
		} else {
			return "user-reflect", ""
		}
	}
	for i < len(frames) && strings.HasPrefix(frames[i][0], "verif/sim/simrt.") {
		i++
	}
	if i >= len(frames) {
		return "other", ""
	}
	f := frames[i]
	switch {
	case strings.HasPrefix(f[0], gpref):
		loc := f[1]
		if k := strings.Index(loc, "github.com/bilibili/gengine"); k >= 0 {
			loc = loc[k+len("github.com/bilibili/gengine"):]
			if j := strings.Index(loc, "/"); j >= 0 { // skips "@v0.0.0" of -trimpath builds
				loc = loc[j+1:]
			}
		} else if k := strings.Index(loc, "/gengine/"); k >= 0 {
			loc = loc[k+len("/gengine/"):]
		}
		if k := strings.Index(loc, " "); k >= 0 {
			loc = loc[:k]
		}
		return "own", loc
	case strings.HasPrefix(f[0], "verif/sim/h.") || strings.HasPrefix(f[0], "main."):
		return "harness", ""
	}
	return "other", ""
}

func parseRaceReports(text string) []RaceReport {
	var out []RaceReport
	for _, blk := range strings.Split(text, "==================") {
		if !strings.Contains(blk, "WARNING: DATA RACE") {
			continue
		}
		lines := strings.Split(blk, "\n")
		var stacks [][][2]string
		var cur [][2]string
		in := false
		for i := 0; i < len(lines); i++ {
			l := lines[i]
			t := strings.TrimSpace(l)
			if strings.HasPrefix(t, "Read at") || strings.HasPrefix(t, "Write at") || strings.HasPrefix(t, "Previous read at") || strings.HasPrefix(t, "Previous write at") ||
				strings.HasPrefix(t, "Atomic") || strings.HasPrefix(t, "Previous atomic") {
				if in {
					stacks = append(stacks, cur)
				}
				cur, in = nil, true
				continue
			}
			if strings.HasPrefix(t, "Goroutine ") {
				if in {
					stacks = append(stacks, cur)
				}
				in = false
				continue
			}
			if in && t != "" && strings.HasPrefix(l, "  ") && !strings.HasPrefix(l, "      ") {
				fn := t
				if k := strings.LastIndex(fn, "("); k > 0 {
					fn = fn[:k]
				}
				loc := ""
				if i+1 < len(lines) {
					loc = strings.TrimSpace(lines[i+1])
				}
				cur = append(cur, [2]string{fn, loc})
			}
		}
		if in {
			stacks = append(stacks, cur)
		}
		if len(stacks) < 2 {
			continue
		}
		mk := func(fr [][2]string) raceAccess {
			c, s := classify(fr)
			a := raceAccess{Class: c, Site: s}
			for k, f := range fr {
				if k >= 8 {
					break
				}
				a.Frames = append(a.Frames, f[0]+" "+f[1])
			}
			return a
		}
		out = append(out, RaceReport{A: mk(stacks[0]), B: mk(stacks[1]), Text: strings.TrimSpace(blk)})
	}
	return out
}

// CollectRaces reads what the race detector logged since the last call and
// turns reports that touch gengine's own state into violations.
func CollectRaces(o *RunOut) {
	if RaceLog == "" {
		return
	}
	path := fmt.Sprintf("%s.%d", RaceLog, os.Getpid())
	b, err := os.ReadFile(path)
	if err != nil || int64(len(b)) <= raceOff {
		return
	}
	text := string(b[raceOff:])
	raceOff = int64(len(b))
	for _, r := range parseRaceReports(text) {
		own := r.A.Class == "own" || r.B.Class == "own"
		key := "race_reports/" + r.A.Class + "+" + r.B.Class
		o.count(key, 1)
		if !own {
			continue
		}
		sites := []string{r.A.Site, r.B.Site}
		for i, a := range []raceAccess{r.A, r.B} {
			if a.Class != "own" {
				sites[i] = a.Class
			}
		}
		sort.Strings(sites)
		t := r.Text
		if len(t) > 3000 {
			t = t[:3000] + "\n..."
		}
		o.Violations = append(o.Violations, Violation{Clause: "data-race", Detail: sites[0] + "|" + sites[1], Msg: "unsynchronised conflicting accesses on gengine's own state:\n" + t})
	}
}
