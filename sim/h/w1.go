package h

import (
	"fmt"

	"github.com/bilibili/gengine/builder"
	"github.com/bilibili/gengine/context"
	"github.com/bilibili/gengine/engine"
	"verif/sim/simrt"
)

// RunW1 is the engine-model workload: one rule builder, one engine, a generated
// rule set compiled once (inside the simulation, so that map order at build
// time is a simulator choice), then a sequence of execute calls, each with its
// own behaviour plan and parameters.
func RunW1(p *Profile, plan, sched *simrt.Source, trace bool) *RunOut {
	g := &G{S: plan}
	o := &RunOut{}
	cfg := g.GenConfig(trace)
	rules := g.GenRuleSet(p)
	// text order is a generated choice too (it must not matter)
	order := make([]*RuleDef, len(rules))
	copy(order, rules)
	for i := len(order) - 1; i > 0; i-- {
		j := i - g.Intn(i+1)
		order[i], order[j] = order[j], order[i]
	}
	text := RenderSet(order)
	ncalls := 1 + g.Intn(p.MaxCalls)
	if g.Pct(75) && ncalls < p.MinCalls {
		ncalls = p.MinCalls
	}
	sc := &Scenario{Universe: rules}
	sc.Index()
	for i := 0; i < ncalls; i++ {
		sc.Calls = append(sc.Calls, g.GenCall(p, rules, i))
	}
	for _, c := range sc.Calls {
		for id, pl := range c.Plan {
			rd := sc.Rule(id)
			if pl.Fire >= 0 && pl.Fire < len(rd.Secs) && rd.Secs[pl.Fire].Kind == SecUnb {
				cfg.StepCap = 5000000
			}
		}
	}
	o.Describe = func() []string {
		out := []string{fmt.Sprintf("config: strategy=%d stick=%d‰ shuffleMaps=%v psites=%d‰ stall=%d", cfg.Strategy, cfg.StickPermil, cfg.ShuffleMaps, cfg.PProb, cfg.StallSteps)}
		for _, r := range order {
			out = append(out, "rule "+r.String())
		}
		out = append(out, "--- rule text ---", text, "--- calls ---")
		for _, c := range sc.Calls {
			out = append(out, c.String())
		}
		return out
	}
	dc := context.NewDataContext()
	rb := builder.NewRuleBuilder(dc)
	eng := engine.NewGengine()
	var buildErr error
	run := simrt.NewRun(cfg, sched)
	run.Execute(func() {
		if buildErr = rb.BuildRuleFromString(text); buildErr != nil {
			return
		}
		for _, c := range sc.Calls {
			InvokeEngine(sc, eng, rb, c)
		}
	})
	fillStats(o, run)
	o.PlanRec, o.SchedRec = plan.Rec, sched.Rec
	if buildErr != nil {
		o.Infra = "generated rule text does not compile: " + buildErr.Error() + "\n" + text
		return o
	}
	if run.End == simrt.EndInfra {
		o.Infra = run.EndInfo
		return o
	}
	if RaceMode {
		CollectRaces(o)
		o.NonTrivial = run.St.Decisions > 0
		return o
	}
	views := BuildViews(run, sc.Calls)
	rs := ruleSetOf(rules)
	var all []Violation
	for _, c := range sc.Calls {
		all = append(all, CheckCall(sc, views[c.Idx], rs, 0)...)
	}
	fl, fm := inFlightCalls(views)
	for _, v := range runLevel(run, fl) {
		v.Method = fm
		all = append(all, v)
	}
	countFaults(o, sc, views)
	o.Violations = all
	fired := int64(0)
	for k, n := range o.Counters {
		if len(k) > 11 && k[:11] == "fault_fired" {
			fired += n
		}
	}
	o.NonTrivial = run.St.Decisions > 0 || fired > 0 || ncalls >= 2
	return o
}
