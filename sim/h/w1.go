package h

import (
	"sort"
	"fmt"

	"github.com/bilibili/gengine/builder"
	"github.com/bilibili/gengine/context"
	"github.com/bilibili/gengine/engine"
	"verif/sim/simrt"
)

// RunW1 is the engine-model workload: one rule builder, one engine, a generated
// rule set compiled once (inside the simulation, so that map order at build
// time is a simulator choice), then a sequence of execute calls, each with its
// own behaviour plan and parameters.
func RunW1(p *Profile, plan, sched *simrt.Source, trace bool) *RunOut {
	g := &G{S: plan}
	o := &RunOut{}
	cfg := g.GenConfig(trace)
	carry := false
	if p.CarryPct > 0 && g.Pct(p.CarryPct) {
		carry = true
		// a carry-over probe: every call of the run goes through the same entry point, the rules are short
		// writers and readers of the same few names, and most calls end early (a failing rule, a raised stop
		// tag).  Whatever an entry point keeps from a call that did not run to its end, the first rule of the
		// next call through that entry point is there to see.
		pp := *p
		seen := map[int]bool{}
		var distinct []int
		for _, m := range p.Methods {
			if !seen[m] {
				seen[m] = true
				distinct = append(distinct, m)
			}
		}
		pp.Methods = []int{g.PickInt(distinct)}
		pp.Secs = p.CarrySecs
		pp.FaultPct, pp.StopPct, pp.GatePct = 60, 40, 0
		p = &pp
	}
	rules := g.GenRuleSet(p)
	if carry && len(rules) >= 2 && g.Pct(60) {
		// make sure of one writer that can end the call early right after its assignment and of one reader
		// of the same name (their saliences, and so who runs first, stay as drawn)
		wi := g.Intn(len(rules))
		ri := (wi + 1 + g.Intn(len(rules)-1)) % len(rules)
		rules[wi].Secs = []Sec{{Kind: SecLocal}, {Kind: g.PickInt([]int{SecCall, SecStop, SecStop, SecIfKind})}}
		rules[ri].Secs = []Sec{{Kind: SecReader}}
	}
	// text order is a generated choice too (it must not matter)
	order := make([]*RuleDef, len(rules))
	copy(order, rules)
	for i := len(order) - 1; i > 0; i-- {
		j := i - g.Intn(i+1)
		order[i], order[j] = order[j], order[i]
	}
	text := RenderSet(order)
	ncalls := 1 + g.Intn(deep(p.MaxCalls, p.MaxCalls))
	if g.Pct(75) && ncalls < p.MinCalls {
		ncalls = p.MinCalls
	}
	if g.Pct(p.LongHistPct) {
		// a long life of one engine: one entry point over and over, most calls with failing rules
		// (whatever a call leaks or leaves behind per failure adds up)
		pp := *p
		pp.Methods = []int{g.PickInt(p.Methods)}
		pp.FaultPct = 90
		pp.GatePct = 0
		// the endless-loop faults each cost a loop budget's worth of steps: not a hundred of them in one run
		fk := map[int]bool{-1: true}
		for k := 0; k < numSecKinds; k++ {
			if FaultCapable(k) && k != SecUnb && k != SecUnbCont && (p.FaultKinds == nil || p.FaultKinds[k]) {
				fk[k] = true
			}
		}
		pp.FaultKinds = fk
		p = &pp
		ncalls = g.Range(70, 140)
	}
	// optionally the rule set evolves between calls: extra rules (not part of the initial text) may be
	// added, saliences changed and rules removed through the builder's incremental operations
	evolve := g.Pct(p.EvolvePct)
	universe := append([]*RuleDef(nil), rules...)
	if evolve {
		for k := g.Range(0, 2); k > 0; k-- {
			universe = append(universe, g.GenRule(p, len(universe)+1, 1))
		}
	}
	sc := &Scenario{Universe: universe}
	sc.NoDel = g.Pct(30)
	sc.Index()
	state := modelOf(rules)
	ver := 1
	evolveOps := map[int]*MgmtOp{}  // before call i
	states := make([]SetModel, ncalls) // rule set each call runs against
	var callState []SetModel
	for i := 0; i < ncalls; i++ {
		if evolve && i > 0 && g.Pct(35) {
			op := g.GenPoolMgmtOp(universe, state, &ver, []int{OpIncr, OpIncr, OpIncr, OpRemove}, 0)
			if !(op.Kind == OpRemove && len(op.Names) == 0) {
				evolveOps[i] = op
				state = state.apply(op)
			}
		}
		states[i] = state
		c := g.GenCall(p, withVersion(universe, state), len(sc.Calls))
		sc.Calls = append(sc.Calls, c)
		callState = append(callState, state)
		if p.TwinUntagged {
			if um, ok := untaggedTwin[c.Method]; ok {
				anyStop := false
				for _, pl := range c.Plan {
					if pl.Stop || pl.GateAt >= 0 || pl.GateChild >= 0 {
						anyStop = true
					}
				}
				if !anyStop && !c.PresetTag {
					t := &Call{Idx: len(sc.Calls), Method: um, B: c.B, Names: c.Names, Plan: c.Plan, TwinOf: c.Idx}
					sc.Calls = append(sc.Calls, t)
					callState = append(callState, state)
				}
			}
		}
	}
	states = callState
	evolveByCall := map[int]*MgmtOp{}
	{
		k := 0
		for ci, c := range sc.Calls {
			if c.TwinOf >= 0 {
				continue
			}
			if op := evolveOps[k]; op != nil {
				evolveByCall[ci] = op
			}
			k++
		}
	}
	evolveOps = evolveByCall
	limitEndlessLoops(sc, &cfg)
	if len(universe) > 8 && cfg.StepCap < 3000000 {
		cfg.StepCap = 3000000
	}
	o.Describe = func() []string {
		out := []string{fmt.Sprintf("config: strategy=%d stick=%d‰ shuffleMaps=%v psites=%d‰ stall=%d", cfg.Strategy, cfg.StickPermil, cfg.ShuffleMaps, cfg.PProb, cfg.StallSteps)}
		for _, r := range order {
			out = append(out, "rule "+r.String())
		}
		for _, r := range universe[len(rules):] {
			out = append(out, "extra rule (added later by an incremental build) "+r.String())
		}
		out = append(out, "--- rule text ---", text, "--- calls ---")
		for i, c := range sc.Calls {
			if op := evolveOps[i]; op != nil {
				out = append(out, fmt.Sprintf("builder op before call %d: %s => %v", i, op, states[i]))
			}
			out = append(out, c.String())
		}
		return out
	}
	dc := context.NewDataContext()
	rb := builder.NewRuleBuilder(dc)
	eng := engine.NewGengine()
	var buildErr error
	evolveErr := map[int]error{}
	run := simrt.NewRun(cfg, sched)
	run.Execute(func() {
		if buildErr = rb.BuildRuleFromString(text); buildErr != nil {
			return
		}
		for i, c := range sc.Calls {
			if op := evolveOps[i]; op != nil {
				if op.Kind == OpIncr {
					evolveErr[i] = rb.BuildRuleWithIncremental(op.Text)
				} else {
					evolveErr[i] = rb.RemoveRules(op.Names)
				}
			}
			InvokeEngine(sc, eng, rb, c)
		}
	})
	fillStats(o, run)
	o.PlanRec, o.SchedRec = plan.Rec, sched.Rec
	if buildErr != nil {
		o.Infra = "generated rule text does not compile: " + buildErr.Error() + "\n" + text
		return o
	}
	if run.End == simrt.EndInfra {
		o.Infra = run.EndInfo
		return o
	}
	if RaceMode {
		CollectRaces(o)
		o.NonTrivial = run.St.Decisions > 0
		return o
	}
	views := BuildViews(run, sc.Calls)
	var all []Violation
	for i, c := range sc.Calls {
		if op := evolveOps[i]; op != nil {
			o.count("mgmt_ops/"+opKindNames[op.Kind], 1)
			if e := evolveErr[i]; e != nil {
				all = append(all, Violation{Clause: "valid-operation-rejected", Method: opKindNames[op.Kind], Msg: fmt.Sprintf("builder op before call %d (%s) failed: %v", i, op, e)})
			}
		}
		all = append(all, CheckCall(sc, views[c.Idx], states[i].ruleSet(), 0)...)
		for _, x := range views[c.Idx].Execs {
			if m, ok := states[i][x.Rule]; ok && m.Ver != x.Ver {
				all = append(all, Violation{Clause: "ruleset-wrong-version", Method: MethodNames[c.Method], Call: c.Idx,
					Msg: fmt.Sprintf("%s: rule %d ran as v%d, the builder's denoted set %v has v%d", c, x.Rule, x.Ver, states[i], m.Ver)})
			}
		}
	}
	// C14: with the tag never set, the stop-tag variant behaves exactly like the variant without a tag
	for _, t := range sc.Calls {
		if t.TwinOf < 0 {
			continue
		}
		a, b := views[t.TwinOf], views[t.Idx]
		if a.CR < 0 || b.CR < 0 {
			continue
		}
		sa, sb := execTrace(a), execTrace(b)
		if sa != sb || a.Flags != b.Flags {
			all = append(all, Violation{Clause: "differs-from-untagged-variant", Method: MethodNames[a.C.Method], Call: a.C.Idx,
				Msg: fmt.Sprintf("%s with the stop tag never set ran [%s] (flags %d); the same call through %s ran [%s] (flags %d)", a.C, sa, a.Flags, MethodNames[t.Method], sb, b.Flags)})
		}
	}
	fl, fm := inFlightCalls(views)
	for _, v := range runLevel(run, fl) {
		v.Method = fm
		all = append(all, v)
	}
	countFaults(o, sc, views)
	o.Violations = all
	fired := int64(0)
	for k, n := range o.Counters {
		if len(k) > 11 && k[:11] == "fault_fired" {
			fired += n
		}
	}
	o.NonTrivial = run.St.Decisions > 0 || fired > 0 || ncalls >= 2
	return o
}

// untaggedTwin maps the sequential stop-tag variants to their counterparts without a tag.
var untaggedTwin = map[int]int{MExecuteStopTag: MExecute, MSelectedCtlStop: MSelectedCtl, MSelectedCtlStopGiven: MSelectedCtlGiven}

// execTrace is the order in which a call started and ended its rules.
func execTrace(v *CallView) string {
	s := ""
	for _, x := range v.Execs {
		s += fmt.Sprintf("%d", x.Rule)
		if x.Fired {
			s += "!"
		}
		s += " "
	}
	return s
}

// limitEndlessLoops keeps the number of planned endless-loop faults of a run small (each costs a whole loop
// budget of steps, many times that when other tasks spin meanwhile) and raises the step cap when there are any:
// the cap is there to end runs that hang, not runs that have a lot of honest work.
func limitEndlessLoops(sc *Scenario, cfg *simrt.Config) {
	n := 0
	for _, c := range sc.Calls {
		ids := make([]int, 0, len(c.Plan))
		for id := range c.Plan {
			ids = append(ids, id)
		}
		sort.Ints(ids)
		for _, id := range ids {
			pl := c.Plan[id]
			rd := sc.Rule(id)
			if rd != nil && pl.Fire >= 0 && pl.Fire < len(rd.Secs) && (rd.Secs[pl.Fire].Kind == SecUnb || rd.Secs[pl.Fire].Kind == SecUnbCont) {
				n++
				if n > 5 {
					pl.Fire, pl.FireChild = -1, -1
				}
			}
		}
	}
	if n > 0 && cfg.StepCap < 8000000 {
		cfg.StepCap = 8000000
	}
}
