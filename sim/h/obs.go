package h

import (
	"fmt"

	"github.com/bilibili/gengine/engine"
	"verif/sim/simrt"
)

// Event kinds.  Payload convention: A = call (request) id, B = rule id, C = detail.
const (
	EvS      = 1  // rule start                C = version
	EvE      = 2  // rule end (last statement) C = version
	EvY      = 3  // yield point               C = k
	EvFP     = 4  // fault point               C = point<<1 | fire
	EvRet    = 5  // return decision           C = decision
	EvFresh  = 6  // local assigned; the event's Seq is the value
	EvSame   = 7  // local read back           C = value
	EvK      = 8  // conc child start          C = code<<1 | fire
	EvKE     = 9  // conc child end            C = code
	EvAfter  = 10 // statement after a conc block  C = point<<1 | ok
	EvStop   = 11 // stop-tag decision         C = decision
	EvGated  = 12 // released from a gate      C = k
	EvShW    = 13 // shared write done
	EvShR    = 14 // shared read               C = value
	EvId     = 15 // request identity seen by a rule  C = value of Req.ID
	EvOpt    = 16 // optional key read         C = value
	EvUpdIn  = 17 // management op from inside a rule: C = op index
	EvKey    = 18 // forRange loop key seen by the loop body  C = key
	EvObj    = 19 // method invoked on an object kept in a local  C = the object's mark
	EvAlias  = 22 // locals bound from injected slots and updated in place  C = 1: a local has a wrong value, 2: the injected slot changed; C = 4: about to assign the plain name ov; C = 8+16p: the next statement (section p) may fail; C = 16: a value that belongs to another request; C = 32: a function only an earlier request injected was still callable
	EvCallB  = 20 // API call invoked          B = method, C = client
	EvCallR  = 21 // API call returned         B = method, C = flags (1 err, 2 panic)
	EvMgmtB  = 30 // management op invoked     A = op index
	EvMgmtR  = 31 // management op returned    A = op index, C = flags
	EvProbe  = 40 // harness marker
	EvHeld   = 41 // request parked on its hold gate (inside a rule)   A = call
	EvAnswer = 42 // query answered, A = op index, B = which, C = value
)

// RulePlan is what one rule does in one call.
type RulePlan struct {
	Fire      int  // section position (or len(Secs) for the return expression) whose fault fires; -1: none
	FireChild int  // SecConc: child kind whose call panics when Fire is the conc section; -1 none
	Ret       bool // answer of H.Ret
	GateAt    int  // yield index at which the rule parks on its gate; -1: none
	GateChild int  // conc child kind that parks on a gate; -1 none
	Stop      bool // answer of H.SetStop
	Upd       int  // management op index performed by H.Upd; -1 none
}

// Req / Resp / Tag are the per-request objects injected into a call.
type Req struct {
	ID     int64
	Sl     []int64
	In     *In
	hidden int64 // unexported: a rule that returns it must fail (reflection cannot hand the value out)
}

// GrowObj is a fresh object per execution whose slice the rule ranges over while its body appends to it
// (the loop must still end after the rounds it began with).
type GrowObj struct{ Items []int64 }

func (g *GrowObj) Push() { g.Items = append(g.Items, 1) }

func (h *H) NewGrow(r int64) *GrowObj { return &GrowObj{Items: []int64{1, 2, 3}} }

type Resp struct {
	Echo, Mark                     int64
	F0, F1, F2, F3, F4, F5, F6, F7 int64
	G0, G1, G2, G3, G4, G5, G6, G7 int64
}

type Nobj struct {
	X int64
	h *H
}

// Ping reports which object the method was invoked on.
func (n *Nobj) Ping(r int64) {
	if n != nil && n.h != nil {
		simrt.Emit(EvObj, int64(n.h.c.Idx), r, n.X)
	}
}

type OptObj struct{ ID int64 }

// AliasObj is injected as AL (with the slice ALQ): rules copy its field / element into locals and update the locals.
type AliasObj struct{ Base int64 }

const (
	aliasBase = 1000
	aliasElem = 2000
)

// IsRuleEvent says whether an event kind is emitted from inside rules.
func IsRuleEvent(k int32) bool { return k >= EvS && k <= EvObj || k == EvAlias }

// OptSet announces the assignment ov = r+300 (ov is injected in some calls only).
func (h *H) OptSet(r int64) { simrt.Emit(EvAlias, int64(h.c.Idx), r, 4) }

// Alias receives the locals la (= AL.Base + r) and lb (= ALQ[0] * 3) and the injected slots as they are now.
func (h *H) Alias(r, la, lb, base, elem int64) {
	c := int64(0)
	if la != aliasBase+r || lb != aliasElem*3 {
		c |= 1
	}
	if base != aliasBase || elem != aliasElem {
		c |= 2
	}
	simrt.Emit(EvAlias, int64(h.c.Idx), r, c)
}

// TObj is the object behind three-level names T<r>.P.X.
type TObj struct{ P *Nobj }

// In is the object behind the three-level call Req.In.K(...).
type In struct{ h *H }

func (i *In) K(r, code int64) int64 { return i.h.K(r, code) }

// Rid is the id of the request this object belongs to.
func (i *In) Rid() int64 {
	i.h.c.mu.Lock()
	defer i.h.c.mu.Unlock()
	if i.h.c.Req == nil {
		return -1
	}
	return i.h.c.Req.ID
}

// H is the observer a call's rules talk to.  It is created per call and is
// immutable; everything dynamic goes through the scheduler (simrt.Emit, Gate).
type H struct {
	sc *Scenario
	c  *Call
}

func gateID(call int, rule int64, child int64) int64 {
	return int64(call)<<24 | rule<<8 | (child + 1)
}

func (h *H) plan(r int64) *RulePlan {
	if p := h.c.Plan[int(r)]; p != nil {
		return p
	}
	return &defaultPlan
}

var defaultPlan = RulePlan{Fire: -1, FireChild: -1, GateAt: -1, GateChild: -1, Upd: -1}

func (h *H) S(r, v int64) {
	simrt.Emit(EvS, int64(h.c.Idx), r, v)
	if h.c.Hold {
		h.maybeHold()
	}
}
func (h *H) E(r, v int64) { simrt.Emit(EvE, int64(h.c.Idx), r, v) }

func (h *H) Y(r, k int64) {
	simrt.Emit(EvY, int64(h.c.Idx), r, k)
	if p := h.plan(r); p.GateAt == int(k) {
		simrt.Gate(gateID(h.c.Idx, r, -1))
		simrt.Emit(EvGated, int64(h.c.Idx), r, k)
	}
}

// Marker is the unique string an injected panic carries.
func Marker(call int, r, p int64) string { return fmt.Sprintf("boom-c%d-r%d-p%d", call, r, p) }

// F is a fault point inside an injected method: it panics when the plan says so.
func (h *H) F(r, p int64) int64 {
	fire := int64(0)
	if h.plan(r).Fire == int(p) {
		fire = 1
	}
	simrt.Emit(EvFP, int64(h.c.Idx), r, p<<1|fire)
	if fire == 1 {
		panic(Marker(h.c.Idx, r, p))
	}
	return 0
}

// C is F used as a condition.
func (h *H) C(r, p int64) bool {
	h.F(r, p)
	return true
}

// B announces the fault point of the next statement (the interpreter itself
// faults there, so there is nothing to call at the point).
func (h *H) B(r, p int64) {
	fire := int64(0)
	pl := h.plan(r)
	if pl.Fire == int(p) {
		fire = 1
	}
	if rd := h.sc.Rule(int(r)); rd != nil && int(p) < len(rd.Secs) && (rd.Secs[p].Kind == SecReader || rd.Secs[p].Kind == SecLocObjReader) {
		fire = 1 // a reader rule always faults: it reads a local it never assigned
	}
	if rd := h.sc.Rule(int(r)); rd != nil && int(p) < len(rd.Secs) && (rd.Secs[p].Kind == SecArgCount || rd.Secs[p].Kind == SecFnArgCount || rd.Secs[p].Kind == SecStrayBreak) {
		fire = 1 // a call with too few arguments always faults
	}
	if rd := h.sc.Rule(int(r)); rd != nil && int(p) == len(rd.Secs) && rd.Ret == RetUnexp {
		fire = 1 // returning an unexported field always faults
	}
	if rd := h.sc.Rule(int(r)); rd != nil && int(p) < len(rd.Secs) && rd.Secs[p].Kind == SecOpt && !h.c.HasOpt {
		fire = 1 // the request did not inject Opt
	}
	if rd := h.sc.Rule(int(r)); rd != nil && int(p) < len(rd.Secs) && rd.Secs[p].Kind == SecOptFn && !h.c.HasOptFn {
		fire = 1 // the request did not inject the function ofn
	}
	simrt.Emit(EvFP, int64(h.c.Idx), r, p<<1|fire)
}

// A swallows an argument.
func (h *H) A(r, v int64) {}

func (h *H) Ret(r int64) bool {
	d := int64(0)
	if h.plan(r).Ret {
		d = 1
	}
	simrt.Emit(EvRet, int64(h.c.Idx), r, d)
	return d == 1
}

func (h *H) Fresh(r int64) int64 {
	return simrt.Emit(EvFresh, int64(h.c.Idx), r, 0) + 1000000
}

func (h *H) Same(r, x int64) { simrt.Emit(EvSame, int64(h.c.Idx), r, x) }

// SameAny receives whatever a reader section found under the local name it read (it should have found nothing).
func (h *H) SameAny(r int64, v interface{}) {
	x := int64(1)
	if n, ok := v.(int64); ok {
		x = n
	}
	simrt.Emit(EvSame, int64(h.c.Idx), r, x)
}

// Pt is a struct that rules keep by value in a local.
type Pt struct{ X, Y int64 }

func (h *H) Pt(r int64) Pt { return Pt{X: r, Y: 1} }

// M announces a statement that may legitimately fail (the library is free to accept or reject it): whether it
// did is read off the events that follow.
func (h *H) M(r, p int64) { simrt.Emit(EvAlias, int64(h.c.Idx), r, 8+p*16) }

// Acc receives the counter of a three-round loop.
func (h *H) Acc(r, n int64) {
	c := int64(0)
	if n != 3 {
		c = 1
	}
	simrt.Emit(EvAlias, int64(h.c.Idx), r, c)
}

// ApiValue is what the pool's api map holds under QA (by value).
const ApiValue = 4242

// ApiIs receives the by-value api entry QA as a rule finds it: the constructor's value, or what a rule of this
// very request assigned (if the library lets rules assign to it at all).
func (h *H) ApiIs(r, v int64) {
	c := int64(0)
	if v != ApiValue && (h.c.Req == nil || v != h.c.Req.ID) {
		c = 16
	}
	simrt.Emit(EvAlias, int64(h.c.Idx), r, c)
}

// Obj3 makes a rule-local object with a nested object (for a three-level store rooted in a local).
func (h *H) Obj3(r int64) *TObj { return &TObj{P: &Nobj{X: r, h: h}} }

// OptV receives what the optional function ofn returned: the id of the request that injected it.
func (h *H) OptV(r, v int64) {
	c := int64(0)
	if !h.c.HasOptFn {
		c = 32
	} else if h.c.Req != nil && v != h.c.Req.ID {
		c = 16
	}
	simrt.Emit(EvAlias, int64(h.c.Idx), r, c)
}

// Fa is the injected function fa(r, x).
func (h *H) Fa(r, x int64) int64 { return x }

// KVal is the value conc child `code` of rule r produces.
func KVal(r, code int64) int64 { return code*100 + r + 7 }

// K is a conc child (method, function and three-level forms all end here).
func (h *H) K(r, code int64) int64 {
	if code >= extraBase {
		simrt.Emit(EvK, int64(h.c.Idx), r, code<<1)
		simrt.Emit(EvKE, int64(h.c.Idx), r, code)
		return KVal(r, code)
	}
	pl := h.plan(r)
	kind := code % 8
	pos := code / 8
	fire := int64(0)
	if pl.Fire == int(pos) && pl.FireChild == int(kind) {
		fire = 1
	}
	simrt.Emit(EvK, int64(h.c.Idx), r, code<<1|fire)
	if pl.GateChild == int(kind) {
		simrt.Gate(gateID(h.c.Idx, r, kind))
	}
	if fire == 1 && kind != ChAsgBad { // (that child fails in the store that follows, not here)
		panic(Marker(h.c.Idx, r, code+1000))
	}
	simrt.Emit(EvKE, int64(h.c.Idx), r, code)
	return KVal(r, code)
}

// KeyIs receives the loop key of a forRange over this rule's own one-entry map.
func (h *H) KeyIs(r, k int64) { simrt.Emit(EvKey, int64(h.c.Idx), r, k) }

// Obj makes a rule-local struct.
func (h *H) Obj(r int64) *Nobj { return &Nobj{X: r + 500, h: h} }

// KA is a conc child that was handed a field of a rule-local struct.
func (h *H) KA(r, code, x int64) int64 {
	if x != r+500 {
		panic(fmt.Sprintf("local-field-wrong-r%d-got%d", r, x))
	}
	return h.K(r, code)
}

// After is the statement following a conc block; it checks that it sees every
// value the children assigned.
func (h *H) After(r, p, pv, qv, fv int64) {
	ok := int64(1)
	if rd := h.sc.Rule(int(r)); rd != nil && int(p) < len(rd.Secs) {
		m := rd.Secs[p].Arg
		if m&(1<<ChAsgLocal) != 0 && pv != KVal(r, p*8+ChAsgLocal) {
			ok = 0
		}
		if m&(1<<ChAsgLoc2) != 0 && qv != KVal(r, p*8+ChAsgLoc2) {
			ok = 0
		}
		if m&(1<<ChAsgField) != 0 && fv != KVal(r, p*8+ChAsgField) {
			ok = 0
		}
	}
	simrt.Emit(EvAfter, int64(h.c.Idx), r, p<<1|ok)
}

func (h *H) SetStop(r int64) bool {
	d := int64(0)
	if h.plan(r).Stop {
		d = 1
	}
	simrt.Emit(EvStop, int64(h.c.Idx), r, d)
	return d == 1
}

func (h *H) ShW(r int64)    { simrt.Emit(EvShW, int64(h.c.Idx), r, 0) }
func (h *H) ShR(r, v int64) { simrt.Emit(EvShR, int64(h.c.Idx), r, v) }
func (h *H) Id(r, v int64)  { simrt.Emit(EvId, int64(h.c.Idx), r, v) }
func (h *H) Opt(r, v int64) { simrt.Emit(EvOpt, int64(h.c.Idx), r, v) }

// Upd performs a management operation from inside a rule.
func (h *H) Upd(r int64) {
	pl := h.plan(r)
	if pl.Upd < 0 || h.sc.DoMgmt == nil || simrt.CallNY(hUpdOnce, int64(pl.Upd), 0, 0) != 1 {
		return
	}
	simrt.Emit(EvUpdIn, int64(h.c.Idx), r, int64(pl.Upd))
	h.sc.DoMgmt(pl.Upd)
}

// Data builds the objects one call injects.
func (h *H) Data() map[string]interface{} {
	c := h.c
	d := map[string]interface{}{}
	d["H"] = h
	c.mu.Lock()
	c.Req = &Req{ID: int64(c.Idx)*10 + 3, Sl: []int64{1, 2, 3}, In: &In{h}, hidden: 5}
	c.Resp = &Resp{}
	d["Req"] = c.Req
	d["Resp"] = c.Resp
	if c.UseTag || h.sc.NeedTag {
		if c.PresetTag && h.sc.lastTag != nil {
			c.Tag = h.sc.lastTag // the caller keeps one Stag object and does not lower it between calls
		} else {
			c.Tag = &engine.Stag{}
		}
		c.TagAtEntry = c.Tag.StopTag
		h.sc.lastTag = c.Tag
		d["Tag"] = c.Tag
	}
	c.mu.Unlock()
	if c.HasOpt {
		d["Opt"] = &OptObj{ID: c.Req.ID}
	}
	if c.HasOptFn {
		id := c.Req.ID
		d["ofn"] = func(x int64) int64 { return id }
	}
	if c.OptName {
		v := int64(1)
		c.mu.Lock()
		c.OvPtr = &v
		c.mu.Unlock()
		d["ov"] = &v
	}
	if c.OddKeys {
		// keys the pool is documented to ignore: an empty name and a nil value
		d[""] = int64(1)
		d["NilVal"] = nil
	}
	if h.sc.NeedKf {
		d["kf"] = h.K
	}
	if h.sc.NeedFa {
		d["fa"] = h.Fa
	}
	if h.sc.NeedFf {
		d["ff"] = h.F
		d["fc"] = h.C
	}
	for _, rd := range h.sc.KeyRules() {
		pl := h.plan(int64(rd.ID))
		fk := -1
		if pl.Fire >= 0 && pl.Fire < len(rd.Secs) {
			fk = rd.Secs[pl.Fire].Kind
		}
		retFire := pl.Fire == len(rd.Secs) && (rd.Ret == RetKind || rd.Ret == RetTopKind)
		id := rd.ID
		needVA, needVC := rd.Ret == RetKind || rd.Ret == RetTopKind, false
		for _, s := range rd.Secs {
			switch s.Kind {
			case SecAsgKind, SecArg, SecForStep, SecSetKind:
				needVA = true
			case SecDiv:
				if fk == SecDiv {
					d[fmt.Sprintf("VD%d", id)] = int64(0)
				} else {
					d[fmt.Sprintf("VD%d", id)] = int64(2)
				}
			case SecIdx, SecIfIdx, SecMapIdx:
				if fk == s.Kind {
					d[fmt.Sprintf("VI%d", id)] = int64(17)
				} else if _, ok := d[fmt.Sprintf("VI%d", id)]; !ok {
					d[fmt.Sprintf("VI%d", id)] = int64(1)
				}
			case SecNil, SecIfNil, SecSetNil:
				if fk == s.Kind {
					d[fmt.Sprintf("N%d", id)] = (*Nobj)(nil)
				} else if _, ok := d[fmt.Sprintf("N%d", id)]; !ok {
					d[fmt.Sprintf("N%d", id)] = &Nobj{X: 1}
				}
			case SecUnknown:
				if fk != SecUnknown {
					d[fmt.Sprintf("U%d", id)] = int64(1)
				}
			case SecIfKind, SecForKind:
				needVC = true
			case SecElifCall:
				d[fmt.Sprintf("VB%d", id)] = false
			case SecElif:
				needVC = true
				d[fmt.Sprintf("VB%d", id)] = false
			case SecUnb, SecUnbCont:
				d[fmt.Sprintf("VT%d", id)] = fk == s.Kind
			case SecConc:
				if s.Arg&(1<<ChAsgBad) != 0 {
					if fk == SecConc && pl.FireChild == ChAsgBad {
						d[fmt.Sprintf("VK%d", id)] = int64(17)
					} else {
						d[fmt.Sprintf("VK%d", id)] = int64(1)
					}
				}
			case SecFnArgKind:
				if fk == SecFnArgKind {
					d[fmt.Sprintf("VS%d", id)] = "s"
				} else {
					d[fmt.Sprintf("VS%d", id)] = int64(1)
				}
			case SecRangeKey:
				d[fmt.Sprintf("MM%d", id)] = map[int64]int64{int64(id) + 700: 1}
			case SecLocAlias:
				d["AL"] = &AliasObj{Base: aliasBase}
				d["ALQ"] = []int64{aliasElem}
			case SecThreeNil, SecIfThreeNil, SecThreeSet:
				if fk == s.Kind {
					d[fmt.Sprintf("T%d", id)] = &TObj{}
				} else if _, ok := d[fmt.Sprintf("T%d", id)]; !ok {
					d[fmt.Sprintf("T%d", id)] = &TObj{P: &Nobj{X: 1}}
				}
			case SecNilMapSet:
				if fk == SecNilMapSet {
					d[fmt.Sprintf("NMAP%d", id)] = map[string]int64(nil)
				} else {
					d[fmt.Sprintf("NMAP%d", id)] = map[string]int64{}
				}
			case SecForRange:
				if fk == SecForRange {
					d[fmt.Sprintf("M%d", id)] = int64(5) // not iterable
				} else {
					d[fmt.Sprintf("M%d", id)] = []int64{1}
				}
			}
		}
		if rd.Ret == RetElse || rd.Ret == RetElseIf {
			d[fmt.Sprintf("VF%d", id)] = false
		}
		if rd.Ret == RetForRange || rd.Ret == RetTopLoop {
			d[fmt.Sprintf("RS%d", id)] = []int64{4, 5}
		}
		if needVA {
			if fk == SecAsgKind || fk == SecArg || fk == SecForStep || fk == SecSetKind || retFire {
				d[fmt.Sprintf("VA%d", id)] = "s"
			} else {
				d[fmt.Sprintf("VA%d", id)] = int64(1)
			}
		}
		if needVC {
			if fk == SecIfKind || fk == SecForKind || fk == SecElif {
				d[fmt.Sprintf("VC%d", id)] = int64(1) // not a boolean
			} else {
				d[fmt.Sprintf("VC%d", id)] = fk != SecForKind && false
			}
		}
	}
	return d
}
