package h

import (
	"fmt"
	"sort"

	"verif/sim/simrt"
)

// Exec is one observed execution of one rule.
type Exec struct {
	Call, Rule, Ver int
	Task            int32
	First, Last     int64 // sequence numbers of the start event and of the last event of the execution (children included)
	LastOwn         int64 // last event emitted by the executing task itself
	Ended           bool  // reached its last statement (E event)
	RetAsked        int   // number of H.Ret calls
	RetTrue         bool  // H.Ret answered true
	Fired           bool  // a fault point fired (the rule failed there)
	FirePoint       int
	StopSet         bool
	FreshSeq        int64 // -1: none
	Sames           []int64
	Kids            []simrt.Event // conc child events (EvK / EvKE) attributed to this execution
	Afters          []simrt.Event
	Own             []simrt.Event
	mayPoint        int // >= 0: the last own event announced a statement that may fail (section number)
}

// CallView is everything observed about one call.
type CallView struct {
	C      *Call
	CB, CR int64 // seq of invoke / return events, -1 when absent
	Flags  int64
	Execs  []*Exec
	Stray  []simrt.Event // rule events that could not be attributed to an execution
	Late   []simrt.Event // events of this call after its return
}

// Violation is one failed oracle clause.
type Violation struct {
	Clause string // e.g. "barrier"
	Method string
	Detail string // discriminating parameters (part of the signature)
	Msg    string // human explanation (not part of the signature)
	Call   int
}

func (v Violation) Sig() string {
	s := v.Clause
	if v.Clause == "api-panic" || v.Clause == "goroutine-panic" || v.Clause == "data-race" {
		// a panic is identified by the gengine function it came out of, whatever the entry point
		return s + "/" + v.Detail
	}
	if v.Method != "" {
		s += "/" + v.Method
	}
	if v.Detail != "" {
		s += "/" + v.Detail
	}
	return s
}

// BuildViews groups the event log by call and rule execution.
func BuildViews(r *simrt.Run, calls []*Call) map[int]*CallView {
	views := map[int]*CallView{}
	for _, c := range calls {
		views[c.Idx] = &CallView{C: c, CB: -1, CR: -1}
	}
	open := map[int32]*Exec{} // task -> execution in progress on that task
	for _, e := range r.Events {
		switch e.Kind {
		case EvCallB:
			if v := views[int(e.A)]; v != nil {
				v.CB = e.Seq
			}
			continue
		case EvCallR:
			if v := views[int(e.A)]; v != nil {
				v.CR = e.Seq
				v.Flags = e.C
			}
			delete(open, e.Task)
			continue
		}
		if !IsRuleEvent(e.Kind) {
			continue
		}
		v := views[int(e.A)]
		if v == nil {
			continue
		}
		if v.CR >= 0 {
			v.Late = append(v.Late, e)
		}
		if e.Kind == EvS {
			x := &Exec{Call: int(e.A), Rule: int(e.B), Ver: int(e.C), Task: e.Task, First: e.Seq, Last: e.Seq, LastOwn: e.Seq, FreshSeq: -1, FirePoint: -1, mayPoint: -1}
			x.Own = append(x.Own, e)
			v.Execs = append(v.Execs, x)
			open[e.Task] = x
			continue
		}
		var x *Exec
		if e.Kind == EvK || e.Kind == EvKE {
			// a conc child: the execution of the same rule whose task is an ancestor of the child's task
			// (the nearest such ancestor: a model may run one rule of a stage on the task that also starts the
			// goroutines of the others, which makes that task an ancestor of every execution of the stage)
			for t := e.Task; t >= 0; t = r.TaskParent(t) {
				if c := open[t]; c != nil && c.Call == int(e.A) && c.Rule == int(e.B) {
					x = c
					break
				}
			}
			if x == nil {
				v.Stray = append(v.Stray, e)
				continue
			}
			x.Kids = append(x.Kids, e)
			if e.Seq > x.Last {
				x.Last = e.Seq
			}
			if e.Kind == EvK && e.C&1 == 1 {
				x.Fired = true
				x.FirePoint = int(e.C>>1) / 8
			}
			continue
		}
		x = open[e.Task]
		if x == nil || x.Rule != int(e.B) || x.Call != int(e.A) {
			v.Stray = append(v.Stray, e)
			continue
		}
		x.Own = append(x.Own, e)
		x.Last, x.LastOwn = e.Seq, e.Seq
		x.mayPoint = -1
		if e.Kind == EvAlias && e.C&8 != 0 {
			x.mayPoint = int(e.C >> 4)
		}
		switch e.Kind {
		case EvE:
			x.Ended = true
		case EvFP:
			if e.C&1 == 1 {
				x.Fired = true
				x.FirePoint = int(e.C >> 1)
			}
		case EvRet:
			x.RetAsked++
			if e.C == 1 {
				x.RetTrue = true
			}
		case EvStop:
			if e.C == 1 {
				x.StopSet = true
			}
		case EvFresh:
			x.FreshSeq = e.Seq
		case EvSame:
			x.Sames = append(x.Sames, e.C)
		case EvAfter:
			x.Afters = append(x.Afters, e)
		}
	}
	for _, v := range views {
		for _, x := range v.Execs {
			// a statement that may fail was the last thing the execution did: it failed there
			if x.mayPoint >= 0 && !x.Ended && !x.Fired {
				x.Fired, x.FirePoint = true, x.mayPoint
			}
		}
		sort.SliceStable(v.Execs, func(i, j int) bool { return v.Execs[i].First < v.Execs[j].First })
	}
	return views
}

func (x *Exec) String() string {
	s := fmt.Sprintf("r%d[t%d %d..%d", x.Rule, x.Task, x.First, x.Last)
	if x.Fired {
		s += fmt.Sprintf(" FAIL@%d", x.FirePoint)
	}
	if x.RetTrue {
		s += " ret"
	}
	if x.StopSet {
		s += " stop"
	}
	if x.Ended {
		s += " E"
	}
	return s + "]"
}
