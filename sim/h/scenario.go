package h

import (
	"fmt"
	"sort"
	"strings"
	"runtime/debug"
	"sync"

	"github.com/bilibili/gengine/builder"
	"github.com/bilibili/gengine/engine"
	"verif/sim/simrt"
)

// Execute methods (engine and pool share the first 21; the last three exist on the pool only).
const (
	MExecute = iota
	MExecuteStopTag
	MConcurrent
	MMix
	MMixStopTag
	MSelected
	MSelectedCtl
	MSelectedCtlGiven
	MSelectedCtlStop
	MSelectedCtlStopGiven
	MSelectedConc
	MSelectedMix
	MInverseMix
	MSelectedInverseMix
	MNSortMConc
	MNConcMSort
	MNConcMConc
	MSelNSortMConc
	MSelNConcMSort
	MSelNConcMConc
	MDAG
	NumEngineMethods
	MPoolEM       = NumEngineMethods     // ExecuteRulesWithSpecifiedEM
	MPoolEMMulti  = NumEngineMethods + 1 // ExecuteRulesWithMultiInputWithSpecifiedEM
	MPoolSelEM    = NumEngineMethods + 2 // ExecuteSelectedWithSpecifiedEM
	NumPoolMethod = NumEngineMethods + 3
)

var MethodNames = [...]string{"Execute", "ExecuteWithStopTagDirect", "ExecuteConcurrent", "ExecuteMixModel", "ExecuteMixModelWithStopTagDirect",
	"ExecuteSelectedRules", "ExecuteSelectedRulesWithControl", "ExecuteSelectedRulesWithControlAsGivenSortedName",
	"ExecuteSelectedRulesWithControlAndStopTag", "ExecuteSelectedRulesWithControlAndStopTagAsGivenSortedName",
	"ExecuteSelectedRulesConcurrent", "ExecuteSelectedRulesMixModel", "ExecuteInverseMixModel", "ExecuteSelectedRulesInverseMixModel",
	"ExecuteNSortMConcurrent", "ExecuteNConcurrentMSort", "ExecuteNConcurrentMConcurrent",
	"ExecuteSelectedNSortMConcurrent", "ExecuteSelectedNConcurrentMSort", "ExecuteSelectedNConcurrentMConcurrent",
	"ExecuteDAGModel", "ExecuteRulesWithSpecifiedEM", "ExecuteRulesWithMultiInputWithSpecifiedEM", "ExecuteSelectedWithSpecifiedEM"}

// HasB / HasNames / HasNM / HasTag describe a method's parameters.
func HasB(m int) bool {
	switch m {
	case MExecute, MExecuteStopTag, MSelectedCtl, MSelectedCtlGiven, MSelectedCtlStop, MSelectedCtlStopGiven,
		MNSortMConc, MNConcMSort, MNConcMConc, MSelNSortMConc, MSelNConcMSort, MSelNConcMConc:
		return true
	}
	return false
}

func HasNames(m int) bool {
	switch m {
	case MSelected, MSelectedCtl, MSelectedCtlGiven, MSelectedCtlStop, MSelectedCtlStopGiven, MSelectedConc, MSelectedMix,
		MSelectedInverseMix, MSelNSortMConc, MSelNConcMSort, MSelNConcMConc, MPoolSelEM:
		return true
	}
	return false
}

func HasNM(m int) bool {
	switch m {
	case MNSortMConc, MNConcMSort, MNConcMConc, MSelNSortMConc, MSelNConcMSort, MSelNConcMConc:
		return true
	}
	return false
}

func HasTag(m int) bool {
	switch m {
	case MExecuteStopTag, MMixStopTag, MSelectedCtlStop, MSelectedCtlStopGiven:
		return true
	}
	return false
}

// Call is one execute call: parameters, behaviour plan, and (after the run) its outcome.
type Call struct {
	Idx    int
	Client int
	Method int
	B      bool
	N, M   int
	Names  []string
	DAG    [][]string
	UseTag bool
	PassNames []string // the slice object handed to the library (a caller passing its own variable again and again shares one object between calls); Names is what it is meant to hold
	HasOptFn bool // the request injects the function value ofn
	HasOpt bool
	PresetTag  bool // W1: the call reuses the previous call's Stag object as it was left
	TagAtEntry bool // the tag was already raised when the call began
	OptName bool   // the plain name ov is injected (as *int64) in this call
	OvPtr   *int64 // what was injected under it
	OddKeys bool // the data map also carries an empty key and a nil value (the pool must ignore both)
	TwinOf  int  // >= 0: this call repeats call TwinOf through the variant without a stop tag (C14: tag never set => identical)
	Plan   map[int]*RulePlan
	Hold   bool // park on the hold gate at the first yield of the first rule (probe rounds)

	// outcome, written by the calling task under mu, read by the oracles after the run
	mu       sync.Mutex
	Done     bool
	Err      error
	Panicked bool
	PanicVal string
	PanicSite string
	Result   map[string]interface{}
	ResultAtReturn map[string]interface{} // deep copy taken when the call returned
	Req      *Req
	Resp     *Resp
	RespAtReturn Resp
	Tag      *engine.Stag
}

func (c *Call) String() string {
	s := fmt.Sprintf("#%d %s", c.Idx, MethodNames[c.Method])
	if HasB(c.Method) {
		s += fmt.Sprintf(" b=%v", c.B)
	}
	if HasNM(c.Method) {
		s += fmt.Sprintf(" n=%d m=%d", c.N, c.M)
	}
	if HasNames(c.Method) {
		s += " names=[" + strings.Join(c.Names, ",") + "]"
	}
	if c.Method == MDAG {
		s += fmt.Sprintf(" dag=%v", c.DAG)
	}
	var ids []int
	for id := range c.Plan {
		ids = append(ids, id)
	}
	sort.Ints(ids)
	for _, id := range ids {
		p := c.Plan[id]
		if p.Fire >= 0 || p.Ret || p.GateAt >= 0 || p.Stop || p.GateChild >= 0 || p.Upd >= 0 {
			s += fmt.Sprintf(" r%d{", id)
			if p.Fire >= 0 {
				s += fmt.Sprintf("fire@%d", p.Fire)
				if p.FireChild >= 0 {
					s += fmt.Sprintf("/child%d", p.FireChild)
				}
				s += " "
			}
			if p.Ret {
				s += "ret "
			}
			if p.GateAt >= 0 {
				s += fmt.Sprintf("gate@y%d ", p.GateAt)
			}
			if p.GateChild >= 0 {
				s += fmt.Sprintf("gatechild%d ", p.GateChild)
			}
			if p.Stop {
				s += "stop "
			}
			if p.Upd >= 0 {
				s += fmt.Sprintf("upd%d ", p.Upd)
			}
			s = strings.TrimRight(s, " ") + "}"
		}
	}
	return s
}

// Scenario is everything the observer needs to know; immutable during a run
// except for the outcome fields of calls (each written by exactly one task).
type Scenario struct {
	Universe []*RuleDef // every rule id that may ever exist, with its sections (shared by all versions)
	byID     map[int]*RuleDef
	Calls    []*Call
	NeedTag  bool
	NeedKf   bool
	NeedFf   bool
	NeedFa   bool
	NeedApi  bool
	NoDel    bool // bare-engine workload: the caller re-injects (overwrites) its objects before every call instead of deleting them afterwards
	lastTag  *engine.Stag
	OnlyHReqOpt bool // ... or needs nothing but H, Req and *optional* names (Opt, ofn), which a two-object request simply does not inject
	OnlyHReq bool // every rule gets by with the injected names H and Req (the two-object pool method can be used)
	DoMgmt   func(op int)
}

func (sc *Scenario) Index() {
	sc.byID = map[int]*RuleDef{}
	sc.OnlyHReq = true
	sc.OnlyHReqOpt = true
	for _, r := range sc.Universe {
		switch r.Ret {
		case RetKind, RetTopKind, RetElse, RetElseIf, RetForRange, RetTopLoop:
			sc.OnlyHReq = false
			sc.OnlyHReqOpt = false
		}
		for _, s := range r.Secs {
			switch s.Kind {
			case SecY, SecCall, SecAsgCall, SecLocal, SecReader, SecIfCall, SecUpd:
			case SecOpt, SecOptFn:
				sc.OnlyHReq = false
			case SecConc:
				if s.Arg&(1<<ChAsgField|1<<ChFunc|1<<ChAsgBad) != 0 || ConcExtras(s.Arg) > 0 {
					sc.OnlyHReq = false
					sc.OnlyHReqOpt = false
				}
			default:
				sc.OnlyHReq = false
				sc.OnlyHReqOpt = false
			}
		}
		sc.byID[r.ID] = r
		for _, s := range r.Secs {
			if s.Kind == SecStop {
				sc.NeedTag = true
			}
			if s.Kind == SecConc && (s.Arg&(1<<ChFunc) != 0 || ConcExtras(s.Arg) > 2) {
				sc.NeedKf = true
			}
			if s.Kind == SecFuncCall || s.Kind == SecIfFunc {
				sc.NeedFf = true
			}
			if s.Kind == SecFnArgKind || s.Kind == SecFnArgCount {
				sc.NeedFa = true
			}
			if s.Kind == SecApiSet {
				sc.NeedApi = true
			}
		}
	}
}

func (sc *Scenario) Rule(id int) *RuleDef { return sc.byID[id] }

// KeyRules returns the rules whose sections need per-rule injected keys.
func (sc *Scenario) KeyRules() []*RuleDef { return sc.Universe }

// NewH creates the observer of a call.
func (sc *Scenario) NewH(c *Call) *H { return &H{sc: sc, c: c} }

func deepCopyResult(m map[string]interface{}) map[string]interface{} {
	if m == nil {
		return nil
	}
	o := make(map[string]interface{}, len(m))
	for k, v := range m {
		o[k] = v
	}
	return o
}

// finish records the outcome of a call (calling task).
func (c *Call) finish(err error, res map[string]interface{}, panicked bool, pv string) {
	c.mu.Lock()
	c.Done = true
	c.Err = err
	c.Panicked = panicked
	c.PanicVal = pv
	c.Result = res
	c.ResultAtReturn = deepCopyResult(res)
	if c.Resp != nil {
		c.RespAtReturn = *c.Resp
	}
	c.mu.Unlock()
}

func (c *Call) passNames() []string {
	if c.PassNames != nil {
		return c.PassNames
	}
	return c.Names
}

func stagOf(c *Call) *engine.Stag {
	if c.Tag == nil {
		c.Tag = &engine.Stag{}
	}
	return c.Tag
}

// InvokeEngine performs call c on a bare engine.  The data context belongs to rb.
func InvokeEngine(sc *Scenario, g *engine.Gengine, rb *builder.RuleBuilder, c *Call) {
	h := sc.NewH(c)
	data := h.Data()
	keys := make([]string, 0, len(data))
	for k := range data {
		keys = append(keys, k)
	}
	sort.Strings(keys)
	for _, k := range keys {
		if k != "" && data[k] != nil {
			rb.Dc.Add(k, data[k])
		}
	}
	flags := int64(0)
	simrt.Emit(EvCallB, int64(c.Idx), int64(c.Method), int64(c.Client))
	var err error
	var res map[string]interface{}
	panicked, pv := false, ""
	func() {
		defer func() {
			if e := recover(); e != nil {
				panicked, pv = true, fmt.Sprint(e)
				c.PanicSite = crashSite(string(debug.Stack()))
			}
		}()
		switch c.Method {
		case MExecute:
			err = g.Execute(rb, c.B)
		case MExecuteStopTag:
			err = g.ExecuteWithStopTagDirect(rb, c.B, stagOf(c))
		case MConcurrent:
			err = g.ExecuteConcurrent(rb)
		case MMix:
			err = g.ExecuteMixModel(rb)
		case MMixStopTag:
			err = g.ExecuteMixModelWithStopTagDirect(rb, stagOf(c))
		case MSelected:
			err = g.ExecuteSelectedRules(rb, c.passNames())
		case MSelectedCtl:
			err = g.ExecuteSelectedRulesWithControl(rb, c.B, c.passNames())
		case MSelectedCtlGiven:
			err = g.ExecuteSelectedRulesWithControlAsGivenSortedName(rb, c.B, c.passNames())
		case MSelectedCtlStop:
			err = g.ExecuteSelectedRulesWithControlAndStopTag(rb, c.B, stagOf(c), c.passNames())
		case MSelectedCtlStopGiven:
			err = g.ExecuteSelectedRulesWithControlAndStopTagAsGivenSortedName(rb, c.B, stagOf(c), c.passNames())
		case MSelectedConc:
			err = g.ExecuteSelectedRulesConcurrent(rb, c.passNames())
		case MSelectedMix:
			err = g.ExecuteSelectedRulesMixModel(rb, c.passNames())
		case MInverseMix:
			err = g.ExecuteInverseMixModel(rb)
		case MSelectedInverseMix:
			err = g.ExecuteSelectedRulesInverseMixModel(rb, c.passNames())
		case MNSortMConc:
			err = g.ExecuteNSortMConcurrent(c.N, c.M, rb, c.B)
		case MNConcMSort:
			err = g.ExecuteNConcurrentMSort(c.N, c.M, rb, c.B)
		case MNConcMConc:
			err = g.ExecuteNConcurrentMConcurrent(c.N, c.M, rb, c.B)
		case MSelNSortMConc:
			err = g.ExecuteSelectedNSortMConcurrent(c.N, c.M, rb, c.B, c.passNames())
		case MSelNConcMSort:
			err = g.ExecuteSelectedNConcurrentMSort(c.N, c.M, rb, c.B, c.passNames())
		case MSelNConcMConc:
			err = g.ExecuteSelectedNConcurrentMConcurrent(c.N, c.M, rb, c.B, c.passNames())
		case MDAG:
			err = g.ExecuteDAGModel(rb, c.DAG)
		default:
			panic("harness: not an engine method")
		}
		res, _ = g.GetRulesResultMap()
	}()
	if err != nil {
		flags |= 1
	}
	if panicked {
		flags |= 2
	}
	simrt.Emit(EvCallR, int64(c.Idx), int64(c.Method), flags)
	c.finish(err, res, panicked, pv)
	if sc.NoDel {
		// this caller does not clean up between calls, it just injects again (Add replaces): the four
		// objects every call injects (H, Req, Resp, Tag) stay and are overwritten, the rest is taken out
		var opt []string
		for _, k := range keys {
			if k != "H" && k != "Req" && k != "Resp" && k != "Tag" {
				opt = append(opt, k)
			}
		}
		rb.Dc.Del(opt...)
		return
	}
	rb.Dc.Del(keys...)
}

// InvokePool performs call c on a pool.
func InvokePool(sc *Scenario, p *engine.GenginePool, c *Call) {
	h := sc.NewH(c)
	data := h.Data()
	flags := int64(0)
	simrt.Emit(EvCallB, int64(c.Idx), int64(c.Method), int64(c.Client))
	var err error
	var res map[string]interface{}
	panicked, pv := false, ""
	func() {
		defer func() {
			if e := recover(); e != nil {
				panicked, pv = true, fmt.Sprint(e)
				c.PanicSite = crashSite(string(debug.Stack()))
			}
		}()
		switch c.Method {
		case MExecute:
			err, res = p.Execute(data, c.B)
		case MExecuteStopTag:
			err, res = p.ExecuteWithStopTagDirect(data, c.B, stagOf(c))
		case MConcurrent:
			err, res = p.ExecuteConcurrent(data)
		case MMix:
			err, res = p.ExecuteMixModel(data)
		case MMixStopTag:
			err, res = p.ExecuteMixModelWithStopTagDirect(data, stagOf(c))
		case MSelected:
			err, res = p.ExecuteSelectedRules(data, c.passNames())
		case MSelectedCtl:
			err, res = p.ExecuteSelectedRulesWithControl(data, c.B, c.passNames())
		case MSelectedCtlGiven:
			err, res = p.ExecuteSelectedRulesWithControlAsGivenSortedName(data, c.B, c.passNames())
		case MSelectedCtlStop:
			err, res = p.ExecuteSelectedRulesWithControlAndStopTag(data, c.B, stagOf(c), c.passNames())
		case MSelectedCtlStopGiven:
			err, res = p.ExecuteSelectedRulesWithControlAndStopTagAsGivenSortedName(data, c.B, stagOf(c), c.passNames())
		case MSelectedConc:
			err, res = p.ExecuteSelectedRulesConcurrent(data, c.passNames())
		case MSelectedMix:
			err, res = p.ExecuteSelectedRulesMixModel(data, c.passNames())
		case MInverseMix:
			err, res = p.ExecuteInverseMixModel(data)
		case MSelectedInverseMix:
			err, res = p.ExecuteSelectedRulesInverseMixModel(data, c.passNames())
		case MNSortMConc:
			err, res = p.ExecuteNSortMConcurrent(c.N, c.M, c.B, data)
		case MNConcMSort:
			err, res = p.ExecuteNConcurrentMSort(c.N, c.M, c.B, data)
		case MNConcMConc:
			err, res = p.ExecuteNConcurrentMConcurrent(c.N, c.M, c.B, data)
		case MSelNSortMConc:
			err, res = p.ExecuteSelectedNSortMConcurrent(c.N, c.M, c.B, c.passNames(), data)
		case MSelNConcMSort:
			err, res = p.ExecuteSelectedNConcurrentMSort(c.N, c.M, c.B, c.passNames(), data)
		case MSelNConcMConc:
			err, res = p.ExecuteSelectedNConcurrentMConcurrent(c.N, c.M, c.B, c.passNames(), data)
		case MDAG:
			err, res = p.ExecuteDAGModel(c.DAG, data)
		case MPoolEM:
			// the two-object form injects only Req and Resp; the observer and the
			// per-rule keys must already be part of the pool's apis in scenarios that use it
			// the two-object form: the observer travels as the "request", Req as the "response";
			// only generated for rule sets that need nothing else (Scenario.OnlyHReq)
			err, res = p.ExecuteRulesWithSpecifiedEM("H", data["H"], "Req", data["Req"])
		case MPoolEMMulti:
			err, res = p.ExecuteRulesWithMultiInputWithSpecifiedEM(data)
		case MPoolSelEM:
			err, res = p.ExecuteSelectedWithSpecifiedEM(data, c.passNames())
		default:
			panic("harness: unknown method")
		}
	}()
	if err != nil {
		flags |= 1
	}
	if panicked {
		flags |= 2
	}
	simrt.Emit(EvCallR, int64(c.Idx), int64(c.Method), flags)
	c.finish(err, res, panicked, pv)
}
