// Package h is the harness: generated workloads, the observer object that
// rules call, reference models and the oracles of the claimed properties.
package h

import (
	"fmt"
	"strconv"
	"strings"
)

// Section kinds of a generated rule body.  What a section *does* in a given
// call is decided by the call's behaviour plan, not by the text.
const (
	SecY        = iota // H.Y(r,k)                                 plain yield / gate point
	SecCall            // H.F(r,p)                                 panic in an injected method, call statement
	SecAsgCall         // t = H.F(r,p)                             panic in an injected method, assignment rhs
	SecAsgKind         // a = 1 + VA<r>                            ill-typed operand, assignment rhs
	SecDiv             // a = 10 / VD<r>                           division by zero
	SecIdx             // a = Req.Sl[VI<r>]                        index out of range, assignment rhs
	SecNil             // a = N<r>.X                               nil pointer field access, assignment rhs
	SecUnknown         // a = U<r> + 1                             unknown name
	SecArg             // H.A(r, 1 + VA<r>)                        ill-typed operand in a call argument
	SecIfKind          // if VC<r> { H.Y }                         non-boolean if condition
	SecIfIdx           // if Req.Sl[VI<r>] > 0 { H.Y }             index out of range in an if condition
	SecIfNil           // if N<r>.X > 0 { H.Y }                    nil pointer in an if condition
	SecElif            // if VB<r> {} else if VC<r> {}             non-boolean else-if condition
	SecForKind         // for i = 0; VC<r>; i += 1 { break }       non-boolean for condition
	SecForStep         // for i = 0; i < 1; i += VA<r> { H.Y }     ill-typed for step
	SecUnb             // for i = 0; VT<r>; i += 0 { j = 1 }       unbounded loop
	SecUnbCont         // for i = 0; VT<r>; i += 0 { if VT<r> { continue } }   unbounded loop whose body always continues
	SecConc            // conc { ... } ; H.After(...)              conc block, Arg = child mask
	SecLocal           // x = H.Fresh(r) ... H.Same(r,x)           local privacy (Same is emitted at the end)
	SecReader          // H.Same(r, x) without assigning x        must fail with not-found
	SecStop            // if H.SetStop(r) { Tag.StopTag = true }
	SecShW             // Resp.Mark = <id>                         shared injected write
	SecShR             // H.Sh(r, Resp.Mark)                       shared injected read
	SecUpd             // H.Upd(r)                                 management op from inside a rule
	SecEcho            // Resp.Echo = Req.ID ; H.Id(r, Req.ID)     request identity
	SecOpt             // H.Opt(r, Opt.ID)                         optional key other requests do not inject
	SecIfCall          // if H.C(r,p) { H.Y }                      panic in a method inside an if condition
	SecForRange        // forRange k := M<r> { H.Y }               forRange over a nil / wrong-kind operand
	SecMapIdx          // Req.Sl[VI<r>] = 1                        index out of range on the left-hand side
	SecSetKind         // Resp.G<k> = VA<r>                        ill-typed value stored into an injected struct field
	SecSetNil          // N<r>.X = 1                               field store through a nil injected pointer
	SecRangeKey        // forRange x := MM<r> { H.KeyIs(r, x) }    the loop key is a local (named like everybody's local)
	SecThreeNil        // a = T<r>.P.X                             nil pointer on a three-level field read, assignment rhs
	SecIfThreeNil      // if T<r>.P.X > 0 { H.Y }                  the same in an if condition
	SecArgCount        // H.F(r)                                   too few arguments for an injected method (always faults)
	SecNilMapSet       // NMAP<r>["k"] = 1                         store into a nil injected map
	SecFuncCall        // ff(r,p)                                  panic in an injected *function*, call statement
	SecIfFunc          // if fc(r,p) { H.Y }                       panic in an injected function inside an if condition
	SecThreeSet        // T<r>.P.X = 1                             store through a nil pointer on a three-level name
	SecLocObj          // lo = H.Obj(r) ; lo.Ping(r)               a method called on an object kept in a local
	SecLocObjReader    // lo.Ping(r) without assigning lo          must fail
	SecLocAlias        // la = AL.Base; la += r; lb = ALQ[0]; lb *= 3; H.Alias(...)   locals bound from injected slots, then updated in place
	SecFnArgKind       // fa(r, VS<r>)                             an injected *function* handed a string for a numeric parameter
	SecFnArgCount      // fa(r)                                    an injected function called with too few arguments (always fails)
	SecLocStruct       // ls = H.Pt(r); ls.Y = 5; H.Y              a struct kept by value in a local, one field assigned (may fail)
	SecElifCall        // if VB<r> { H.Y } else if H.C(r,p) { H.Y }  an else-if condition whose evaluation fails (panicking call)
	SecForAcc          // ac = 0; for fi = 0; fi < 3; fi += 1 { ac = ac + 1; H.Y }; H.Acc(r, ac)   a counting loop with a scheduling point in its body
	SecApiSet          // H.ApiIs(r, QA); QA = Req.ID; H.Y       reads, then assigns, a by-value entry of the pool's api map (the assignment may fail)
	SecRangeGrow       // gs = H.NewGrow(r); forRange gk := gs.Items { gs.Push(); H.Y }   a loop over a slice that its own body keeps growing
	SecThreeSetLoc     // l3 = H.Obj3(r); l3.P.X = 5; H.Y           a three-level store whose root is a rule local (may fail)
	SecOptFn           // H.OptV(r, ofn(r))                        a function value only some requests inject
	SecForCall         // for fj = 0; fj < 2; fj += 1 { H.F(r,p) }    a failing call inside the body of a for loop
	SecStrayBreak      // H.B(r,p); break                             a break outside any loop (always fails)
	SecThreeArith      // H.Id(r, Req.In.Rid() + 0)                arithmetic whose only non-literal operand is a three-level call on request data
	SecOptName         // H.OptSet(r); ov = r+300                  a plain name that some calls inject (then it is shared) and others do not (then it is a local)
	numSecKinds
)

var secNames = [...]string{"Y", "Call", "AsgCall", "AsgKind", "Div", "Idx", "Nil", "Unknown", "Arg", "IfKind", "IfIdx", "IfNil", "Elif", "ForKind", "ForStep", "Unb", "UnbCont", "Conc", "Local", "Reader", "Stop", "ShW", "ShR", "Upd", "Echo", "Opt", "IfCall", "ForRange", "MapIdx", "SetKind", "SetNil", "RangeKey", "ThreeNil", "IfThreeNil", "ArgCount", "NilMapSet", "FuncCall", "IfFunc", "ThreeSet", "LocObj", "LocObjReader", "LocAlias", "FnArgKind", "FnArgCount", "LocStruct", "ElifCall", "ForAcc", "ApiSet", "RangeGrow", "ThreeSetLoc", "OptFn", "ForCall", "StrayBreak", "ThreeArith", "OptName"}

// FaultCapable reports whether a section hosts a fault point.
func FaultCapable(k int) bool {
	switch k {
	case SecCall, SecAsgCall, SecAsgKind, SecDiv, SecIdx, SecNil, SecUnknown, SecArg, SecIfKind, SecIfIdx, SecIfNil, SecElif, SecForKind, SecForStep, SecUnb, SecUnbCont, SecConc, SecIfCall, SecForRange, SecMapIdx, SecSetKind, SecSetNil, SecThreeNil, SecIfThreeNil, SecArgCount, SecNilMapSet, SecFuncCall, SecIfFunc, SecThreeSet, SecFnArgKind, SecFnArgCount, SecElifCall, SecForCall:
		return true
	}
	return false
}

// MarkerFault reports whether the fault of a section is a panic of an injected
// method carrying a unique marker string.
func MarkerFault(k int) bool {
	return k == SecCall || k == SecAsgCall || k == SecIfCall || k == SecFuncCall || k == SecIfFunc || k == SecElifCall || k == SecForCall
}

// Return shapes of a rule.
const (
	RetNone     = iota
	RetNestedV  // if H.Ret(r) { return V }
	RetNestedB  // if H.Ret(r) { return }
	RetLoop     // for ... { if H.Ret(r) { return V } }
	RetTop      // return V          (last statement, after H.E)
	RetTopB     // return            (last statement)
	RetKind     // if H.Ret(r) { H.B(r,p) return 1 + VA<r> }   fault point in a nested return expression
	RetTopKind  // H.B(r,p) return 1 + VA<r>                    fault point in the top-level return expression
	RetElse     // if VF<r> { H.Y } else { if H.Ret(r) { return V } }   return from an else block
	RetReq      // if H.Ret(r) { return Req.ID }                 value derived from the request's own data
	RetUnexp    // if H.Ret(r) { H.B(r,p) return Req.hidden }    a value reflection cannot hand out: the rule must fail, no entry
	RetForRange // forRange k := RS<r> { if H.Ret(r) { return V } }          return from inside a forRange body
	RetElseIf   // if VF<r> { H.Y } else if H.Ret(r) { return V }            return from an else-if branch
	RetBreak    // for ... { if w == 1 { break } } if H.Ret(r) { return V }  a loop left by break before the return
	RetContinue // for ... { if w == 0 { continue } if H.Ret(r) { return V } }  return in the iteration after a continue
	RetTopLoop  // forRange k := RS<r> { return V }  (after H.E)                a loop body that is nothing but a return
	numRetKinds
)

// Sec is one section of a rule body.
type Sec struct {
	Kind int
	Arg  int // SecConc: child mask (bit i: child kind i present); others: unused
}

// RuleDef is the data a rule text is rendered from.
type RuleDef struct {
	ID   int // the rule's name is the decimal form, so @id == ID
	Sal  int
	Ver  int
	Secs []Sec
	Ret  int
}

func (r *RuleDef) Name() string { return strconv.Itoa(r.ID) }

// Desc is the description literal of the rule.
func (r *RuleDef) Desc() string { return fmt.Sprintf("d%dv%d", r.ID, r.Ver) }

// RetVal is the value the rule returns through a valued return.
func (r *RuleDef) RetVal() int64 { return int64(r.Ver)*1000 + int64(r.ID) }

// Has reports whether the rule has a section of kind k.
func (r *RuleDef) Has(k int) bool {
	for _, s := range r.Secs {
		if s.Kind == k {
			return true
		}
	}
	return false
}

// YieldKs returns the k arguments of the plain H.Y(r,k) sections (those that
// always execute), following the numbering Render uses.
func (r *RuleDef) YieldKs() []int {
	var ks []int
	yk := 0
	for _, s := range r.Secs {
		switch s.Kind {
		case SecY:
			ks = append(ks, yk)
			yk++
		case SecRangeKey, SecLocObj, SecLocAlias, SecLocStruct, SecForAcc, SecApiSet, SecRangeGrow, SecThreeSetLoc:
			ks = append(ks, yk)
			yk++
		case SecElifCall:
			yk += 2
		case SecIfFunc:
			ks = append(ks, yk)
			yk++
		case SecIfKind, SecIfIdx, SecIfNil, SecForStep, SecIfCall, SecForRange, SecIfThreeNil:
			yk++
		case SecElif:
			yk += 2
		}
	}
	return ks
}

// ConcExtras is the number of additional statements of a conc block (bits 16.. of Sec.Arg); they never
// fail and never park, and each must run exactly once.
func ConcExtras(arg int) int { return arg >> 16 }

const extraBase = 4096

// ExtraCode is the child code of additional statement j of the conc block at section p.
func ExtraCode(p, j int) int { return extraBase + p*64 + j }

// conc child kinds (bits of Sec.Arg)
const (
	ChAsgLocal = 0 // p = H.K(r,0)
	ChAsgField = 1 // Resp.F<slot> = H.K(r,1)
	ChMethod   = 2 // H.K(r,2)
	ChFunc     = 3 // kf(r,3)         injected function
	ChThree    = 4 // Req.In.K(r,4)   three-level call
	ChAsgLoc2  = 5 // q = H.K(r,5)
	ChLocField = 6 // H.KA(r,6, lp.X)   reads a field of a rule-local struct assigned before the block
	ChAsgBad   = 7 // Req.Sl[VK<r>] = H.K(r,7)   an assignment that fails in the store itself (index out of range) when planned to
	NumChild   = 8
	ChPre      = 8 // not a child: the locals the children assign are declared before the block (the children overwrite them)
)

// readerNames are the local names a reader section may try to read (none of them assigned by the reader's own rule).
var readerNames = []string{"x", "p0", "q0", "lo", "la", "ls", "p1", "e0_0", "lb", "q1", "lp0"}

// AssignedLocals lists the reader-visible local names the rule's own sections assign.
func (r *RuleDef) AssignedLocals() []string {
	var out []string
	for p, s := range r.Secs {
		switch s.Kind {
		case SecConc:
			if s.Arg&(1<<ChAsgLocal) != 0 {
				out = append(out, fmt.Sprintf("p%d", p))
			}
			if s.Arg&(1<<ChAsgLoc2) != 0 {
				out = append(out, fmt.Sprintf("q%d", p))
			}
			if s.Arg&(1<<ChLocField) != 0 {
				out = append(out, fmt.Sprintf("lp%d", p))
			}
			if ConcExtras(s.Arg) > 0 {
				out = append(out, fmt.Sprintf("e%d_0", p))
			}
		case SecLocal, SecRangeKey:
			out = append(out, "x")
		case SecLocObj:
			out = append(out, "lo")
		case SecLocAlias:
			out = append(out, "la", "lb")
		case SecLocStruct:
			out = append(out, "ls")
		}
	}
	return out
}

// ReaderPref returns the preference value under which the rule's reader section reads name (-1: it cannot).
func (r *RuleDef) ReaderPref(name string) int {
	for pref := 0; pref < len(readerNames); pref++ {
		if r.ReaderName(pref) == name {
			return pref
		}
	}
	return -1
}

// ReaderName is the local a rule's reader section reads: the pref-th of the names the rule itself never assigns.
func (r *RuleDef) ReaderName(pref int) string {
	own := map[string]bool{}
	for p, s := range r.Secs {
		switch s.Kind {
		case SecConc:
			own[fmt.Sprintf("p%d", p)], own[fmt.Sprintf("q%d", p)], own[fmt.Sprintf("lp%d", p)] = true, true, true
			for j := 0; j < ConcExtras(s.Arg); j++ {
				own[fmt.Sprintf("e%d_%d", p, j)] = true
			}
		case SecLocal, SecRangeKey:
			own["x"] = true
		case SecLocObj:
			own["lo"] = true
		case SecLocAlias:
			own["la"], own["lb"] = true, true
		case SecLocStruct:
			own["ls"] = true
		}
	}
	var cands []string
	for _, n := range readerNames {
		if !own[n] {
			cands = append(cands, n)
		}
	}
	return cands[pref%len(cands)]
}

// Render produces the rule text.  Point numbers p are section positions, so a
// plan can name "the fault point of section i".
func (r *RuleDef) Render() string {
	var b strings.Builder
	id, v := r.ID, r.Ver
	fmt.Fprintf(&b, "rule \"%d\" \"%s\" salience %d\nbegin\n", id, r.Desc(), r.Sal)
	fmt.Fprintf(&b, "H.S(%d,%d)\n", id, v)
	hasLocal := false
	yk := 0
	for p, s := range r.Secs {
		switch s.Kind {
		case SecY:
			fmt.Fprintf(&b, "H.Y(%d,%d)\n", id, yk)
			yk++
		case SecCall:
			fmt.Fprintf(&b, "H.F(%d,%d)\n", id, p)
		case SecAsgCall:
			fmt.Fprintf(&b, "t%d = H.F(%d,%d)\n", p, id, p)
		case SecAsgKind:
			fmt.Fprintf(&b, "H.B(%d,%d)\na%d = 1 + VA%d\n", id, p, p, id)
		case SecDiv:
			fmt.Fprintf(&b, "H.B(%d,%d)\na%d = 10 / VD%d\n", id, p, p, id)
		case SecIdx:
			fmt.Fprintf(&b, "H.B(%d,%d)\na%d = Req.Sl[VI%d]\n", id, p, p, id)
		case SecNil:
			fmt.Fprintf(&b, "H.B(%d,%d)\na%d = N%d.X\n", id, p, p, id)
		case SecUnknown:
			fmt.Fprintf(&b, "H.B(%d,%d)\na%d = U%d + 1\n", id, p, p, id)
		case SecArg:
			fmt.Fprintf(&b, "H.B(%d,%d)\nH.A(%d, 1 + VA%d)\n", id, p, id, id)
		case SecIfKind:
			fmt.Fprintf(&b, "H.B(%d,%d)\nif VC%d {\nH.Y(%d,%d)\n}\n", id, p, id, id, yk)
			yk++
		case SecIfIdx:
			fmt.Fprintf(&b, "H.B(%d,%d)\nif Req.Sl[VI%d] > 0 {\nH.Y(%d,%d)\n}\n", id, p, id, id, yk)
			yk++
		case SecIfNil:
			fmt.Fprintf(&b, "H.B(%d,%d)\nif N%d.X > 0 {\nH.Y(%d,%d)\n}\n", id, p, id, id, yk)
			yk++
		case SecElif:
			fmt.Fprintf(&b, "H.B(%d,%d)\nif VB%d {\nH.Y(%d,%d)\n} else if VC%d {\nH.Y(%d,%d)\n}\n", id, p, id, id, yk, id, id, yk+1)
			yk += 2
		case SecForKind:
			fmt.Fprintf(&b, "H.B(%d,%d)\nfor i%d = 0; VC%d; i%d += 1 {\nbreak\n}\n", id, p, p, id, p)
		case SecForStep:
			fmt.Fprintf(&b, "H.B(%d,%d)\nfor i%d = 0; i%d < 1; i%d += VA%d {\nH.Y(%d,%d)\n}\n", id, p, p, p, p, id, id, yk)
			yk++
		case SecUnb:
			fmt.Fprintf(&b, "H.B(%d,%d)\nfor i%d = 0; VT%d; i%d += 0 {\nj%d = 1\n}\n", id, p, p, id, p, p)
		case SecUnbCont:
			fmt.Fprintf(&b, "H.B(%d,%d)\nfor i%d = 0; VT%d; i%d += 0 {\nif VT%d {\ncontinue\n}\nj%d = 1\n}\n", id, p, p, id, p, id, p)
		case SecIfCall:
			fmt.Fprintf(&b, "if H.C(%d,%d) {\nH.Y(%d,%d)\n}\n", id, p, id, yk)
			yk++
		case SecForRange:
			fmt.Fprintf(&b, "H.B(%d,%d)\nforRange k%d := M%d {\nH.Y(%d,%d)\n}\n", id, p, p, id, id, yk)
			yk++
		case SecMapIdx:
			fmt.Fprintf(&b, "H.B(%d,%d)\nReq.Sl[VI%d] = 1\n", id, p, id)
		case SecSetKind:
			fmt.Fprintf(&b, "H.B(%d,%d)\nResp.G%d = VA%d\n", id, p, id%8, id)
		case SecSetNil:
			fmt.Fprintf(&b, "H.B(%d,%d)\nN%d.X = 1\n", id, p, id)
		case SecThreeNil:
			fmt.Fprintf(&b, "H.B(%d,%d)\na%d = T%d.P.X\n", id, p, p, id)
		case SecIfThreeNil:
			fmt.Fprintf(&b, "H.B(%d,%d)\nif T%d.P.X > 0 {\nH.Y(%d,%d)\n}\n", id, p, id, id, yk)
			yk++
		case SecArgCount:
			fmt.Fprintf(&b, "H.B(%d,%d)\nH.F(%d)\n", id, p, id)
		case SecNilMapSet:
			fmt.Fprintf(&b, "H.B(%d,%d)\nNMAP%d[\"k\"] = 1\n", id, p, id)
		case SecFuncCall:
			fmt.Fprintf(&b, "ff(%d,%d)\n", id, p)
		case SecIfFunc:
			fmt.Fprintf(&b, "if fc(%d,%d) {\nH.Y(%d,%d)\n}\n", id, p, id, yk)
			yk++
		case SecThreeSet:
			fmt.Fprintf(&b, "H.B(%d,%d)\nT%d.P.X = 1\n", id, p, id)
		case SecLocObj:
			fmt.Fprintf(&b, "lo = H.Obj(%d)\nH.Y(%d,%d)\nlo.Ping(%d)\n", id, id, yk, id)
			yk++
		case SecLocObjReader:
			fmt.Fprintf(&b, "H.B(%d,%d)\nlo.Ping(%d)\n", id, p, id)
		case SecOptName:
			fmt.Fprintf(&b, "H.OptSet(%d)\nov = %d\n", id, id+300)
		case SecLocAlias:
			fmt.Fprintf(&b, "la = AL.Base\nla += %d\nlb = ALQ[0]\nH.Y(%d,%d)\nlb *= 3\nH.Alias(%d, la, lb, AL.Base, ALQ[0])\n", id, id, yk, id)
			yk++
		case SecRangeKey:
			fmt.Fprintf(&b, "forRange x := MM%d {\nH.Y(%d,%d)\nH.KeyIs(%d, x)\n}\n", id, id, yk, id)
			yk++
		case SecConc:
			if s.Arg&(1<<ChLocField) != 0 {
				fmt.Fprintf(&b, "lp%d = H.Obj(%d)\n", p, id)
			}
			if s.Arg&(1<<ChPre) != 0 {
				if s.Arg&(1<<ChAsgLocal) != 0 {
					fmt.Fprintf(&b, "p%d = 0\n", p)
				}
				if s.Arg&(1<<ChAsgLoc2) != 0 {
					fmt.Fprintf(&b, "q%d = 0\n", p)
				}
			}
			b.WriteString("conc {\n")
			if s.Arg&(1<<ChAsgLocal) != 0 {
				fmt.Fprintf(&b, "p%d = H.K(%d,%d)\n", p, id, p*8+ChAsgLocal)
			}
			if s.Arg&(1<<ChAsgField) != 0 {
				fmt.Fprintf(&b, "Resp.F%d = H.K(%d,%d)\n", id%8, id, p*8+ChAsgField)
			}
			if s.Arg&(1<<ChMethod) != 0 {
				fmt.Fprintf(&b, "H.K(%d,%d)\n", id, p*8+ChMethod)
			}
			if s.Arg&(1<<ChFunc) != 0 {
				fmt.Fprintf(&b, "kf(%d,%d)\n", id, p*8+ChFunc)
			}
			if s.Arg&(1<<ChThree) != 0 {
				fmt.Fprintf(&b, "Req.In.K(%d,%d)\n", id, p*8+ChThree)
			}
			if s.Arg&(1<<ChAsgLoc2) != 0 {
				fmt.Fprintf(&b, "q%d = H.K(%d,%d)\n", p, id, p*8+ChAsgLoc2)
			}
			if s.Arg&(1<<ChLocField) != 0 {
				fmt.Fprintf(&b, "H.KA(%d,%d,lp%d.X)\n", id, p*8+ChLocField, p)
			}
			if s.Arg&(1<<ChAsgBad) != 0 {
				fmt.Fprintf(&b, "Req.Sl[VK%d] = H.K(%d,%d)\n", id, id, p*8+ChAsgBad)
			}
			// further statements of all four forms ("any number and mix"): blocks well beyond a handful
			for j := 0; j < ConcExtras(s.Arg); j++ {
				code := ExtraCode(p, j)
				switch j % 4 {
				case 0:
					fmt.Fprintf(&b, "e%d_%d = H.K(%d,%d)\n", p, j, id, code)
				case 1:
					fmt.Fprintf(&b, "H.K(%d,%d)\n", id, code)
				case 2:
					fmt.Fprintf(&b, "kf(%d,%d)\n", id, code)
				case 3:
					fmt.Fprintf(&b, "Req.In.K(%d,%d)\n", id, code)
				}
			}
			b.WriteString("}\n")
			// the statement after the block reads every assigned local / field
			pa, qa, fa := "0", "0", "0"
			if s.Arg&(1<<ChAsgLocal) != 0 {
				pa = fmt.Sprintf("p%d", p)
			}
			if s.Arg&(1<<ChAsgLoc2) != 0 {
				qa = fmt.Sprintf("q%d", p)
			}
			if s.Arg&(1<<ChAsgField) != 0 {
				fa = fmt.Sprintf("Resp.F%d", id%8)
			}
			fmt.Fprintf(&b, "H.After(%d,%d,%s,%s,%s)\n", id, p, pa, qa, fa)
		case SecLocal:
			fmt.Fprintf(&b, "x = H.Fresh(%d)\n", id)
			hasLocal = true
		case SecReader:
			fmt.Fprintf(&b, "H.B(%d,%d)\nH.SameAny(%d,%s)\n", id, p, id, r.ReaderName(s.Arg))
		case SecElifCall:
			fmt.Fprintf(&b, "if VB%d {\nH.Y(%d,%d)\n} else if H.C(%d,%d) {\nH.Y(%d,%d)\n}\n", id, id, yk, id, p, id, yk+1)
			yk += 2
		case SecForAcc:
			fmt.Fprintf(&b, "ac%d = 0\nfor fi%d = 0; fi%d < 3; fi%d += 1 {\nac%d = ac%d + 1\nH.Y(%d,%d)\n}\nH.Acc(%d, ac%d)\n", p, p, p, p, p, p, id, yk, id, p)
			yk++
		case SecApiSet:
			fmt.Fprintf(&b, "H.ApiIs(%d, QA)\nH.M(%d,%d)\nQA = Req.ID\nH.Y(%d,%d)\n", id, id, p, id, yk)
			yk++
		case SecRangeGrow:
			fmt.Fprintf(&b, "gs%d = H.NewGrow(%d)\nforRange gk%d := gs%d.Items {\ngs%d.Push()\nH.Y(%d,%d)\n}\n", p, id, p, p, p, id, yk)
			yk++
		case SecThreeArith:
			fmt.Fprintf(&b, "H.Id(%d, Req.In.Rid() + 0)\n", id)
		case SecForCall:
			fmt.Fprintf(&b, "for fj%d = 0; fj%d < 2; fj%d += 1 {\nH.F(%d,%d)\n}\n", p, p, p, id, p)
		case SecStrayBreak:
			fmt.Fprintf(&b, "H.B(%d,%d)\nbreak\n", id, p)
		case SecFnArgKind:
			fmt.Fprintf(&b, "H.B(%d,%d)\nfa(%d, VS%d)\n", id, p, id, id)
		case SecFnArgCount:
			fmt.Fprintf(&b, "H.B(%d,%d)\nfa(%d)\n", id, p, id)
		case SecLocStruct:
			fmt.Fprintf(&b, "ls = H.Pt(%d)\nH.M(%d,%d)\nls.Y = 5\nH.Y(%d,%d)\n", id, id, p, id, yk)
			yk++
		case SecStop:
			fmt.Fprintf(&b, "if H.SetStop(%d) {\nTag.StopTag = true\n}\n", id)
		case SecShW:
			fmt.Fprintf(&b, "Resp.Mark = %d\nH.ShW(%d)\n", id, id)
		case SecShR:
			fmt.Fprintf(&b, "H.ShR(%d, Resp.Mark)\n", id)
		case SecUpd:
			fmt.Fprintf(&b, "H.Upd(%d)\n", id)
		case SecEcho:
			fmt.Fprintf(&b, "Resp.Echo = Req.ID\nH.Id(%d, Req.ID)\n", id)
		case SecOpt:
			fmt.Fprintf(&b, "H.B(%d,%d)\nH.Opt(%d, Opt.ID)\n", id, p, id)
		case SecOptFn:
			fmt.Fprintf(&b, "H.B(%d,%d)\nH.OptV(%d, ofn(%d))\n", id, p, id, id)
		case SecThreeSetLoc:
			fmt.Fprintf(&b, "l3 = H.Obj3(%d)\nH.M(%d,%d)\nl3.P.X = 5\nH.Y(%d,%d)\n", id, id, p, id, yk)
			yk++
		}
	}
	if hasLocal {
		fmt.Fprintf(&b, "H.Same(%d,x)\n", id)
	}
	rp := len(r.Secs) // point number of the return-expression fault point
	switch r.Ret {
	case RetNestedV:
		fmt.Fprintf(&b, "if H.Ret(%d) {\nreturn %d\n}\n", id, r.RetVal())
	case RetNestedB:
		fmt.Fprintf(&b, "if H.Ret(%d) {\nreturn\n}\n", id)
	case RetLoop:
		fmt.Fprintf(&b, "for w = 0; w < 2; w += 1 {\nif H.Ret(%d) {\nreturn %d\n}\n}\n", id, r.RetVal())
	case RetKind:
		fmt.Fprintf(&b, "if H.Ret(%d) {\nH.B(%d,%d)\nreturn %d + VA%d - 1\n}\n", id, id, rp, r.RetVal(), id)
	case RetReq:
		fmt.Fprintf(&b, "if H.Ret(%d) {\nreturn Req.ID\n}\n", id)
	case RetUnexp:
		fmt.Fprintf(&b, "if H.Ret(%d) {\nH.B(%d,%d)\nreturn Req.hidden\n}\n", id, id, rp)
	case RetForRange:
		fmt.Fprintf(&b, "forRange kr%d := RS%d {\nif H.Ret(%d) {\nreturn %d\n}\n}\n", id, id, id, r.RetVal())
	case RetElseIf:
		fmt.Fprintf(&b, "if VF%d {\nH.Y(%d,%d)\n} else if H.Ret(%d) {\nreturn %d\n}\n", id, id, yk, id, r.RetVal())
	case RetBreak:
		fmt.Fprintf(&b, "for w = 0; w < 3; w += 1 {\nif w == 1 {\nbreak\n}\n}\nif H.Ret(%d) {\nreturn %d\n}\n", id, r.RetVal())
	case RetContinue:
		fmt.Fprintf(&b, "for w = 0; w < 2; w += 1 {\nif w == 0 {\ncontinue\n}\nif H.Ret(%d) {\nreturn %d\n}\n}\n", id, r.RetVal())
	case RetElse:
		fmt.Fprintf(&b, "if VF%d {\nH.Y(%d,%d)\n} else {\nif H.Ret(%d) {\nreturn %d\n}\n}\n", id, id, yk, id, r.RetVal())
	}
	fmt.Fprintf(&b, "H.E(%d,%d)\n", id, v)
	switch r.Ret {
	case RetTop:
		fmt.Fprintf(&b, "return %d\n", r.RetVal())
	case RetTopLoop:
		fmt.Fprintf(&b, "forRange kt%d := RS%d {\nreturn %d\n}\n", id, id, r.RetVal())
	case RetTopB:
		b.WriteString("return\n")
	case RetTopKind:
		fmt.Fprintf(&b, "H.B(%d,%d)\nreturn %d + VA%d - 1\n", id, rp, r.RetVal(), id)
	}
	b.WriteString("end\n")
	return b.String()
}

// RenderSet renders a rule set in the given order.
func RenderSet(rs []*RuleDef) string {
	var b strings.Builder
	for _, r := range rs {
		b.WriteString(r.Render())
	}
	return b.String()
}

// MinimalRule renders the small body used by the management-history workloads
// (one compile per operation): start event and a version-tagged return.
func MinimalRule(id, sal, ver int) string {
	return fmt.Sprintf("rule \"%d\" \"d%dv%d\" salience %d\nbegin\nH.S(%d,%d)\nreturn %d\nend\n", id, id, ver, sal, id, ver, ver*1000+id)
}

func (r *RuleDef) String() string {
	var ss []string
	for _, s := range r.Secs {
		n := secNames[s.Kind]
		if s.Kind == SecConc {
			n += fmt.Sprintf("(%b+%d)", s.Arg&0xffff, ConcExtras(s.Arg))
		}
		ss = append(ss, n)
	}
	return fmt.Sprintf("{id=%d sal=%d ver=%d secs=[%s] ret=%d}", r.ID, r.Sal, r.Ver, strings.Join(ss, ","), r.Ret)
}
