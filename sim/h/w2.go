package h

import (
	"fmt"
	"sort"
	"strconv"
	"strings"

	"github.com/bilibili/gengine/engine"
	"verif/sim/simrt"
	sync "verif/sim/simsync"
)

// W2 is the pool workload: a GenginePool, client tasks issuing requests
// through any pool execute method, admin tasks issuing management operations,
// probe rounds that force a request onto every engine instance at once.

type W2Opt struct {
	Prof        *Profile
	Methods     []int // pool methods the clients use
	MaxClients  int
	MaxReqs     int // per client
	Admins      int // admin tasks (0..2)
	MaxMgmt     int // management ops per admin
	MgmtKinds   []int
	InvalidPct  int
	FinalProbe  bool // conservation probe round at the end (C17)
	WaiterRound bool // a round that holds max requests while an extra one must wait (C17)
	NilTagPct   int  // requests that make the engine panic on the caller's goroutine
	OptPct      int
	UpdFromRule bool
	ThinPct     int  // % of runs whose rules use nothing but H, Req and optional names, so that the two-object entry point can serve them
	Flood       bool // a few waiter rounds have hundreds of requests waiting at once
	BigPools    bool // a few runs use pools of 33-70 instances
	Prelude     bool // in some runs the pool goes through a management history that ends in the initial set before the clients start
	Restore     bool // the root task re-installs the initial text before the final probe round (C17 with admins)
	Scripted    bool // C16: a single task alternates operations, queries and probe rounds
	Oracle      func(w *W2Run) []Violation
}

var poolSizes = [][2]int{{1, 2}, {1, 3}, {2, 3}, {2, 4}, {3, 5}}

// now and then a pool with more instances than a machine word has bits
var bigPoolSizes = [][2]int{{2, 66}, {60, 70}, {65, 66}, {30, 33}}

func holdGate(call int) int64 { return simrt.HoldGateBit | int64(call) }

// Round is one controller-script entry: release the hold gates of Calls once
// Need of them are parked (and every waiter had K turns to misbehave).
type Round struct {
	Calls    []int
	Need     int
	Waiters  []int
	K        int64
	held     int
	released bool
	// bookkeeping for waiters
	wTask  map[int]int32
	wBase  map[int]int64
	wDone  map[int]bool
	RelSeq    int64 // sequence number of the first event after the release (for the oracle)
	MaxHeld   int
	// staged release (waiter rounds): first one held call is released; the waiter must get its instance
	// while the others are still held; only then (or when nothing can move any more) the rest is released
	Staged   bool
	First    int  // index in Calls of the call released first
	phase    int  // 0: holding, 1: one released, 2: all released
	Starved  bool // the rest had to be released because nothing could move although an instance had come back
	ExtraGate int64 // opened as soon as Need calls are parked (0: none)
	FullSeq   int64 // number of events logged when Need calls were parked for the first time (-1: never)
}

// controller lives on the scheduler goroutine.
type controller struct {
	rounds   []*Round
	byCall   map[int]*Round
	heldOnce map[int]bool
	events   *int
}

const (
	hHold    = 1 // CallNY(hHold, call): 1 if this is the first rule start of a holding call
	hUpdOnce = 2 // CallNY(hUpdOnce, op): 1 for the first caller only (a rule may run several times in one call)
)

func (ct *controller) handler(r *simrt.Run, task int32, a, b, c, d int64) int64 {
	switch a {
	case hHold:
		if ct.heldOnce[int(b)] {
			return 0
		}
		ct.heldOnce[int(b)] = true
		return 1
	case hUpdOnce:
		if ct.heldOnce[-1-int(b)] {
			return 0
		}
		ct.heldOnce[-1-int(b)] = true
		return 1
	}
	return 0
}

func (ct *controller) onEvent(r *simrt.Run, e *simrt.Event) {
	switch e.Kind {
	case EvHeld:
		if rd := ct.byCall[int(e.A)]; rd != nil {
			rd.held++
			if rd.held > rd.MaxHeld {
				rd.MaxHeld = rd.held
			}
			if rd.held >= rd.Need && rd.FullSeq < 0 {
				rd.FullSeq = int64(len(r.Events))
				if rd.ExtraGate != 0 {
					r.OpenGate(rd.ExtraGate)
				}
			}
		}
	case EvCallR:
		for _, rd := range ct.rounds {
			for _, w := range rd.Waiters {
				if w == int(e.A) {
					if rd.wDone == nil {
						rd.wDone = map[int]bool{}
					}
					rd.wDone[w] = true
				}
			}
		}
	case EvCallB:
		for _, rd := range ct.rounds {
			for _, w := range rd.Waiters {
				if w == int(e.A) {
					rd.wTask[w] = e.Task
					rd.wBase[w] = r.TaskScheds(e.Task)
				}
			}
		}
	}
}

func (ct *controller) afterStep(r *simrt.Run) {
	for _, rd := range ct.rounds {
		if rd.released || rd.held < rd.Need {
			continue
		}
		ok := true
		for _, w := range rd.Waiters {
			if rd.wDone[w] {
				continue // the waiter came and went before every instance was held
			}
			t, started := rd.wTask[w]
			if !started || r.TaskScheds(t)-rd.wBase[w] < rd.K {
				ok = false
			}
		}
		if ok {
			rd.released = true
			rd.RelSeq = int64(len(r.Events))
			if rd.Staged && len(rd.Waiters) > 0 && !rd.wDone[rd.Waiters[0]] {
				rd.phase = 1
				r.OpenGate(holdGate(rd.Calls[rd.First]))
				continue
			}
			rd.phase = 2
			for _, c := range rd.Calls {
				r.OpenGate(holdGate(c))
			}
		}
	}
	for _, rd := range ct.rounds {
		if rd.phase == 1 && rd.wDone[rd.Waiters[0]] {
			rd.phase = 2
			for _, c := range rd.Calls {
				r.OpenGate(holdGate(c))
			}
		}
	}
}

// onQuiescent: nobody can move and only hold gates are closed.  In a staged round this means that the
// waiter did not get the instance that had been handed back.
func (ct *controller) onQuiescent(r *simrt.Run) bool {
	for _, rd := range ct.rounds {
		// a waiter that blocks instead of spinning never collects its K turns: when nothing can move,
		// every instance is held and the waiter has arrived, start the staged release right away
		if rd.phase == 0 && !rd.released && rd.Staged && rd.held >= rd.Need && len(rd.Waiters) > 0 {
			if _, started := rd.wTask[rd.Waiters[0]]; started && !rd.wDone[rd.Waiters[0]] {
				rd.released = true
				rd.RelSeq = int64(len(r.Events))
				rd.phase = 1
				r.OpenGate(holdGate(rd.Calls[rd.First]))
				return true
			}
		}
	}
	for _, rd := range ct.rounds {
		if rd.phase == 1 {
			rd.phase = 2
			rd.Starved = true
			for _, c := range rd.Calls {
				r.OpenGate(holdGate(c))
			}
			return true
		}
	}
	return false
}

// W2Run carries everything the pool oracles need.
type W2Run struct {
	Opt      *W2Opt
	Sc       *Scenario
	Run      *simrt.Run
	Views    map[int]*CallView
	Min, Max int
	EM       int
	Rules    []*RuleDef
	Ops      [][]*MgmtOp // per admin
	OpRes    [][]opResult
	Rounds   []*Round
	Out      *RunOut
	Queries  []queryRec
	NilTag   map[int]bool
	InitErr  error
	RestoreErr string
	Prelude    int    // 0 = none
	PreludeErr string // the prelude did not go through: the run is not judged
	NAdmins  int
}

type opResult struct {
	Begin, End int64 // event sequence numbers
	Err        error
	Panicked   string
	Done       bool
}

type queryRec struct {
	AfterOp int
	What    string
	Got     string
}

// hold support in the observer ------------------------------------------------------

func (h *H) maybeHold() {
	if h.c.Hold && simrt.CallNY(hHold, int64(h.c.Idx), 0, 0) == 1 {
		simrt.Emit(EvHeld, int64(h.c.Idx), 0, 0)
		simrt.Gate(holdGate(h.c.Idx))
	}
}

// text of a rule set where every rule carries the given version -----------------------

func withVersion(rules []*RuleDef, pick map[int]MRule) []*RuleDef {
	var out []*RuleDef
	for _, r := range rules {
		if m, ok := pick[r.ID]; ok {
			c := *r
			c.Ver, c.Sal = m.Ver, m.Sal
			out = append(out, &c)
		}
	}
	return out
}

func modelOf(rules []*RuleDef) SetModel {
	m := SetModel{}
	for _, r := range rules {
		m[r.ID] = MRule{r.Sal, r.Ver}
	}
	return m
}

func (m SetModel) ruleSet() RuleSet {
	rs := RuleSet{}
	for id, r := range m {
		rs[id] = r.Sal
	}
	return rs
}

// GenPoolMgmtOp draws a pool management operation whose texts are full-bodied
// versions of universe rules.
func (g *G) GenPoolMgmtOp(universe []*RuleDef, cur SetModel, ver *int, kinds []int, invalidPct int) *MgmtOp {
	o := &MgmtOp{Kind: g.PickInt(kinds)}
	n := len(universe)
	if o.Kind == OpFull && len(g.Hist) > 0 && g.Pct(20) {
		// resubmit an earlier text byte for byte: the installed set must again be exactly that text's
		h := g.Hist[g.Intn(len(g.Hist))]
		return &MgmtOp{Kind: OpFull, Rules: h.Rules, Text: h.Text}
	}
	switch o.Kind {
	case OpFull, OpIncr:
		k := g.Range(1, n)
		if o.Kind == OpIncr && k > 3 && !g.Pct(15) {
			k = g.Range(1, 3) // mostly small batches; some as large as the universe
		}
		idx := make([]int, n)
		for i := range idx {
			idx[i] = i
		}
		for i := n - 1; i > 0; i-- {
			j := i - g.Intn(i+1)
			idx[i], idx[j] = idx[j], idx[i]
		}
		*ver++
		pick := map[int]MRule{}
		for _, i := range idx[:k] {
			r := universe[i]
			sal := r.Sal
			if g.Pct(35) {
				sal = g.Salience(2)
			}
			if old, ok := cur[r.ID]; ok && g.Pct(40) {
				sal = old.Sal
			}
			pick[r.ID] = MRule{sal, *ver}
			o.Rules = append(o.Rules, MRuleDef{r.ID, sal, *ver})
		}
		sort.Slice(o.Rules, func(i, j int) bool { return o.Rules[i].ID < o.Rules[j].ID })
		o.Text = RenderSet(withVersion(universe, pick))
		if g.Pct(invalidPct) {
			o.Invalid = true
			o.Text = breakText(o.Text, g.Intn(5))
		} else if o.Kind == OpFull {
			g.Hist = append(g.Hist, o)
		}
	case OpRemove:
		switch g.Intn(5) {
		case 0:
		case 1:
			for id := range cur {
				o.Names = append(o.Names, strconv.Itoa(id))
			}
			sort.Strings(o.Names)
		default:
			for _, r := range universe {
				if g.Pct(35) {
					o.Names = append(o.Names, strconv.Itoa(r.ID))
				}
			}
			if g.Pct(20) {
				o.Names = append(o.Names, "97")
			}
		}
	case OpSetEM:
		o.EM = g.Range(0, 5)
	}
	if o.Kind == OpRemove && len(o.Names) > 0 && g.Pct(25) {
		for k := g.Range(1, 2); k > 0; k-- {
			o.Names = append(o.Names, o.Names[g.Intn(len(o.Names))])
		}
	}
	return o
}

// initialOp describes the text a pool was constructed with as a full-update operation.
func initialOp(rules []*RuleDef, text string) *MgmtOp {
	o := &MgmtOp{Kind: OpFull, Text: text}
	for _, r := range rules {
		o.Rules = append(o.Rules, MRuleDef{r.ID, r.Sal, r.Ver})
	}
	return o
}

func doPoolOp(p *engine.GenginePool, o *MgmtOp) error {
	switch o.Kind {
	case OpFull:
		return p.UpdatePooledRules(o.Text)
	case OpIncr:
		return p.UpdatePooledRulesIncremental(o.Text)
	case OpRemove:
		return p.RemoveRules(o.Names)
	case OpClear:
		p.ClearPoolRules()
		return nil
	case OpSetEM:
		return p.SetExecModel(o.EM)
	}
	return nil
}

// RunW2 generates and simulates one pool scenario.
func RunW2(opt *W2Opt, plan, sched *simrt.Source, trace bool) *RunOut {
	g := &G{S: plan}
	o := &RunOut{}
	cfg := g.GenConfig(trace)
	p := opt.Prof
	if g.Pct(opt.ThinPct) {
		pp := *p
		pp.Secs = map[int]int{}
		for _, k := range []int{SecY, SecCall, SecLocal, SecReader, SecOpt, SecOptFn} {
			if p.Secs[k] > 0 {
				pp.Secs[k] = p.Secs[k]
			}
		}
		pp.Rets = []int{RetNone, RetNestedV, RetReq}
		p = &pp
	}
	rules := g.GenRuleSet(p)
	text := RenderSet(rules)
	g.Hist = append(g.Hist, initialOp(rules, text))
	size := poolSizes[g.Intn(len(poolSizes))]
	if opt.BigPools && g.Pct(4) {
		size = bigPoolSizes[g.Intn(len(bigPoolSizes))]
	}
	em := 1 + g.Intn(4)
	w := &W2Run{Opt: opt, Min: size[0], Max: size[1], EM: em, Rules: rules, Out: o, NilTag: map[int]bool{}}
	sc := &Scenario{Universe: rules}
	sc.Index()
	w.Sc = sc
	nextCall := 0
	newCall := func(client int, methods []int) *Call {
		pp := *p
		pp.Methods = methods
		c := g.GenCall(&pp, rules, nextCall)
		c.Client = client
		nextCall++
		c.HasOpt = g.Pct(opt.OptPct)
		c.HasOptFn = g.Pct(opt.OptPct)
		if c.Method == MPoolEM && !sc.OnlyHReq {
			if sc.OnlyHReqOpt {
				c.HasOpt, c.HasOptFn = false, false // the two-object entry point injects H and Req, nothing optional
			} else {
				c.Method = MPoolEMMulti
			}
		}
		c.PresetTag = false // (requests overlap here: each has its own Stag)
		c.OddKeys = g.Pct(12)
		if HasTag(c.Method) && g.Pct(opt.NilTagPct) {
			w.NilTag[c.Idx] = true
		}
		sc.Calls = append(sc.Calls, c)
		return c
	}
	// clients
	nClients := 1 + g.Intn(deep(opt.MaxClients, 3))
	clientCalls := make([][]*Call, nClients)
	for ci := range clientCalls {
		n := 1 + g.Intn(deep(opt.MaxReqs, 3))
		for k := 0; k < n; k++ {
			clientCalls[ci] = append(clientCalls[ci], newCall(ci, opt.Methods))
		}
	}
	// admins
	ver := 1
	model := modelOf(rules)
	nAdmins := 0
	if opt.Admins > 0 {
		nAdmins = g.Intn(opt.Admins + 1)
	}
	if opt.Prelude && nAdmins == 0 && g.Pct(25) {
		w.Prelude = 1 + g.Intn(5)
	}
	w.Ops = make([][]*MgmtOp, nAdmins)
	for ai := range w.Ops {
		n := g.Intn(deep(opt.MaxMgmt, 1) + 1)
		for k := 0; k < n; k++ {
			op := g.GenPoolMgmtOp(rules, model, &ver, opt.MgmtKinds, opt.InvalidPct)
			w.Ops[ai] = append(w.Ops[ai], op)
			if !op.Invalid {
				model = model.apply(op) // only a guide for the generator; the oracles recompute per serialisation
			}
		}
	}
	w.NAdmins = nAdmins
	w.OpRes = make([][]opResult, nAdmins)
	for ai := range w.OpRes {
		w.OpRes[ai] = make([]opResult, len(w.Ops[ai]))
	}
	// management ops triggered from inside rules are taken from a separate list
	var inRuleOps []*MgmtOp
	if opt.UpdFromRule {
		for _, c := range sc.Calls {
			for _, r := range rules {
				if r.Has(SecUpd) && g.Pct(25) {
					op := g.GenPoolMgmtOp(rules, model, &ver, opt.MgmtKinds, 0)
					inRuleOps = append(inRuleOps, op)
					c.Plan[r.ID].Upd = len(inRuleOps) - 1
					model = model.apply(op)
				}
			}
		}
	}
	inRuleRes := make([]opResult, len(inRuleOps))
	if len(inRuleOps) > 0 {
		w.Ops = append(w.Ops, inRuleOps)
		w.OpRes = append(w.OpRes, inRuleRes)
	}
	// rounds
	ct := &controller{byCall: map[int]*Round{}, heldOnce: map[int]bool{}}
	var waiterRound *Round
	var waiterCalls []*Call
	var waiterExtra *Call
	var floodCalls []*Call
	if opt.WaiterRound && nAdmins == 0 && g.Pct(60) {
		waiterRound = &Round{Need: w.Max, K: int64(20 + g.Intn(200)), wTask: map[int]int32{}, wBase: map[int]int64{}, FullSeq: -1}
		if g.Pct(70) {
			waiterRound.ExtraGate = simrt.HoldGateBit | 1<<40
			waiterRound.Staged = g.Pct(70)
			waiterRound.First = g.Intn(w.Max)
		}
		for i := 0; i < w.Max; i++ {
			c := newCall(100+i, []int{MExecute, MConcurrent, MMix, MInverseMix, MPoolEMMulti})
			c.Hold = true
			waiterCalls = append(waiterCalls, c)
			waiterRound.Calls = append(waiterRound.Calls, c.Idx)
			ct.byCall[c.Idx] = waiterRound
		}
		waiterExtra = newCall(199, []int{MExecute, MConcurrent, MMix, MPoolEMMulti})
		waiterRound.Waiters = []int{waiterExtra.Idx}
		floodOK := true
		for _, r := range rules {
			if r.Has(SecConc) {
				floodOK = false // hundreds of requests each fanning out a conc block would outgrow the task table
			}
		}
		if opt.Flood && w.Max <= 5 && floodOK && g.Pct(3) {
			// "any number of concurrent requests": hundreds of them waiting while every instance is busy
			waiterRound.Staged = false
			waiterRound.K = 2
			for i, n := 0, g.PickInt([]int{260, 300}); i < n; i++ {
				c := newCall(300+i, []int{MExecute})
				for _, pl := range c.Plan {
					pl.Fire, pl.FireChild, pl.GateAt, pl.GateChild = -1, -1, -1, -1
				}
				floodCalls = append(floodCalls, c)
				waiterRound.Waiters = append(waiterRound.Waiters, c.Idx)
			}
			cfg.StepCap = 6000000
		}
		ct.rounds = append(ct.rounds, waiterRound)
	}
	var finalRound *Round
	var finalCalls []*Call
	if opt.FinalProbe {
		finalRound = &Round{Need: w.Max, wTask: map[int]int32{}, wBase: map[int]int64{}, FullSeq: -1}
		for i := 0; i < w.Max; i++ {
			c := newCall(200+i, []int{MExecute, MConcurrent, MPoolEMMulti})
			c.Hold = true
			for _, pl := range c.Plan { // probes carry no faults and no gates
				pl.Fire, pl.FireChild, pl.GateAt, pl.GateChild = -1, -1, -1, -1
			}
			finalCalls = append(finalCalls, c)
			finalRound.Calls = append(finalRound.Calls, c.Idx)
			ct.byCall[c.Idx] = finalRound
		}
		ct.rounds = append(ct.rounds, finalRound)
	}
	w.Rounds = ct.rounds
	limitEndlessLoops(sc, &cfg)
	if len(rules) > 8 && cfg.StepCap < 3000000 {
		cfg.StepCap = 3000000 // forty rules with conc blocks in a pool are a lot of honest steps
	}
	o.Describe = func() []string {
		out := []string{fmt.Sprintf("config: strategy=%d stick=%d‰ shuffleMaps=%v psites=%d‰ stall=%d; pool min=%d max=%d execModel=%d", cfg.Strategy, cfg.StickPermil, cfg.ShuffleMaps, cfg.PProb, cfg.StallSteps, w.Min, w.Max, em)}
		for _, r := range rules {
			out = append(out, "rule "+r.String())
		}
		out = append(out, "--- rule text ---", text, "--- clients ---")
		for ci, cs := range clientCalls {
			for _, c := range cs {
				s := fmt.Sprintf("client %d: %s", ci, c)
				if c.HasOpt {
					s += " +Opt"
				}
				if w.NilTag[c.Idx] {
					s += " NIL-STOPTAG(panics)"
				}
				out = append(out, s)
			}
		}
		for ai, ops := range w.Ops {
			for k, op := range ops {
				who := fmt.Sprintf("admin %d", ai)
				if len(inRuleOps) > 0 && ai == len(w.Ops)-1 {
					who = "in-rule"
				}
				out = append(out, fmt.Sprintf("%s op %d: %s", who, k, op))
			}
		}
		if waiterRound != nil {
			out = append(out, fmt.Sprintf("waiter round: hold calls %v, extra call %d must wait (released after %d turns)", waiterRound.Calls, waiterExtra.Idx, waiterRound.K))
			for _, c := range waiterCalls {
				out = append(out, "  held: "+c.String())
			}
			out = append(out, "  extra: "+waiterExtra.String())
		}
		if finalRound != nil {
			out = append(out, fmt.Sprintf("final probe round: calls %v must all be inside a rule at once", finalRound.Calls))
		}
		return out
	}
	var pool *engine.GenginePool
	doOp := func(ai, k int) {
		op := w.Ops[ai][k]
		res := &w.OpRes[ai][k]
		res.Begin = simrt.Emit(EvMgmtB, int64(ai*100+k), int64(op.Kind), 0)
		func() {
			defer func() {
				if e := recover(); e != nil {
					res.Panicked = fmt.Sprint(e)
				}
			}()
			res.Err = doPoolOp(pool, op)
		}()
		fl := int64(0)
		if res.Err != nil {
			fl = 1
		}
		if res.Panicked != "" {
			fl |= 2
		}
		res.End = simrt.Emit(EvMgmtR, int64(ai*100+k), int64(op.Kind), fl)
		res.Done = true
	}
	if len(inRuleOps) > 0 {
		ai := len(w.Ops) - 1
		sc.DoMgmt = func(k int) { doOp(ai, k) }
	}
	invoke := func(c *Call) {
		if w.NilTag[c.Idx] {
			c.Tag = nil
			invokePoolNilTag(sc, pool, c)
			return
		}
		InvokePool(sc, pool, c)
	}
	run := simrt.NewRun(cfg, sched)
	run.Handler = ct.handler
	run.OnEvent = ct.onEvent
	run.AfterStep = ct.afterStep
	run.OnQuiescent = ct.onQuiescent
	run.Execute(func() {
		var err error
		var apis map[string]interface{}
		if sc.NeedApi {
			apis = map[string]interface{}{"QA": int64(ApiValue)}
		}
		pool, err = engine.NewGenginePool(int64(w.Min), int64(w.Max), em, text, apis)
		if err != nil {
			w.InitErr = err
			return
		}
		if w.Prelude != 0 {
			// a management history that leaves exactly the initial set installed
			func() {
				defer func() {
					if e := recover(); e != nil {
						w.PreludeErr = fmt.Sprint(e)
					}
				}()
				var names []string
				for _, r := range rules {
					names = append(names, strconv.Itoa(r.ID))
				}
				var e error
				switch w.Prelude {
				case 1:
					pool.ClearPoolRules()
					e = pool.UpdatePooledRules(text)
				case 2:
					pool.ClearPoolRules()
					e = pool.UpdatePooledRulesIncremental(text)
				case 3:
					e = pool.UpdatePooledRules(text)
				case 4:
					if e = pool.RemoveRules(names); e == nil {
						e = pool.UpdatePooledRulesIncremental(text)
					}
				case 5:
					if e = pool.UpdatePooledRulesIncremental(text); e == nil {
						e = pool.SetExecModel(em)
					}
				}
				if e != nil {
					w.PreludeErr = e.Error()
				}
			}()
			simrt.Emit(EvProbe, 0, 3, int64(w.Prelude))
		}
		var wg sync.WaitGroup
		for ai := 0; ai < nAdmins; ai++ {
			ai := ai
			wg.Add(1)
			simrt.Go(func() {
				for k := range w.Ops[ai] {
					doOp(ai, k)
					simrt.Yield()
				}
				wg.Done()
			})
		}
		for ci := range clientCalls {
			ci := ci
			wg.Add(1)
			simrt.Go(func() {
				for _, c := range clientCalls[ci] {
					invoke(c)
				}
				wg.Done()
			})
		}
		if waiterRound != nil {
			for _, c := range waiterCalls {
				c := c
				wg.Add(1)
				simrt.Go(func() {
					invoke(c)
					wg.Done()
				})
			}
			wg.Add(1)
			simrt.Go(func() {
				// the extra request arrives (usually once all instances are held); it must wait
				if waiterRound.ExtraGate != 0 {
					simrt.Gate(waiterRound.ExtraGate)
				}
				invoke(waiterExtra)
				wg.Done()
			})
			for _, c := range floodCalls {
				c := c
				wg.Add(1)
				simrt.Go(func() {
					if waiterRound.ExtraGate != 0 {
						simrt.Gate(waiterRound.ExtraGate)
					}
					invoke(c)
					wg.Done()
				})
			}
		}
		wg.Wait()
		if opt.Restore && nAdmins > 0 {
			simrt.Emit(EvProbe, 0, 2, 0)
			func() {
				defer func() {
					if e := recover(); e != nil {
						w.RestoreErr = fmt.Sprint(e)
					}
				}()
				if err := pool.UpdatePooledRules(text); err != nil {
					w.RestoreErr = err.Error()
				}
			}()
		}
		if finalRound != nil {
			var fw sync.WaitGroup
			for _, c := range finalCalls {
				c := c
				fw.Add(1)
				simrt.Go(func() {
					invoke(c)
					fw.Done()
				})
			}
			fw.Wait()
		}
	})
	fillStats(o, run)
	o.PlanRec, o.SchedRec = plan.Rec, sched.Rec
	if w.InitErr != nil {
		o.Infra = "generated rule text rejected by NewGenginePool: " + w.InitErr.Error() + "\n" + text
		return o
	}
	if run.End == simrt.EndInfra {
		o.Infra = run.EndInfo
		return o
	}
	if RaceMode {
		CollectRaces(o)
		o.NonTrivial = run.St.Decisions > 0
		for _, ops := range w.Ops {
			for _, op := range ops {
				o.count("mgmt_ops/"+opKindNames[op.Kind], 1)
			}
		}
		return o
	}
	w.Run = run
	w.Views = BuildViews(run, sc.Calls)
	var all []Violation
	if w.Prelude != 0 {
		o.count("probe/management_prelude", 1)
	}
	if w.PreludeErr != "" {
		// the pool is not in the state the request oracles assume; what went wrong is C16's business
		o.count("probe/management_prelude_failed", 1)
	} else if opt.Oracle != nil {
		all = append(all, opt.Oracle(w)...)
	}
	fl, fm := inFlightCalls(w.Views)
	for _, v := range runLevel(run, fl) {
		v.Method = fm
		all = append(all, v)
	}
	countFaults(o, sc, w.Views)
	for _, ops := range w.Ops {
		for _, op := range ops {
			o.count("mgmt_ops/"+opKindNames[op.Kind], 1)
			if op.Invalid {
				o.count("fault_fired/compile_fault", 1)
			}
		}
	}
	o.Violations = all
	o.NonTrivial = run.St.Decisions > 0
	return o
}

// invokePoolNilTag calls a stop-tag method with a nil tag: the engine
// dereferences it after the first rule and panics on the caller's goroutine.
func invokePoolNilTag(sc *Scenario, p *engine.GenginePool, c *Call) {
	h := sc.NewH(c)
	data := h.Data()
	delete(data, "Tag")
	simrt.Emit(EvCallB, int64(c.Idx), int64(c.Method), int64(c.Client))
	var err error
	var res map[string]interface{}
	panicked, pv := false, ""
	func() {
		defer func() {
			if e := recover(); e != nil {
				panicked, pv = true, fmt.Sprint(e)
			}
		}()
		switch c.Method {
		case MExecuteStopTag:
			err, res = p.ExecuteWithStopTagDirect(data, c.B, nil)
		case MMixStopTag:
			err, res = p.ExecuteMixModelWithStopTagDirect(data, nil)
		case MSelectedCtlStop:
			err, res = p.ExecuteSelectedRulesWithControlAndStopTag(data, c.B, nil, c.passNames())
		default:
			err, res = p.ExecuteSelectedRulesWithControlAndStopTagAsGivenSortedName(data, c.B, nil, c.passNames())
		}
	}()
	flags := int64(0)
	if err != nil {
		flags |= 1
	}
	if panicked {
		flags |= 2
	}
	simrt.Emit(EvCallR, int64(c.Idx), int64(c.Method), flags)
	c.finish(err, res, panicked, pv)
}

// ---- generic per-call oracle on a pool whose rule set never changes -----------------

// CheckPoolCalls applies CheckCall to every request against the fixed rule set.
func CheckPoolCalls(w *W2Run) []Violation {
	rs := ruleSetOf(w.Rules)
	var all []Violation
	for _, c := range w.Sc.Calls {
		v := w.Views[c.Idx]
		if w.NilTag[c.Idx] {
			// the request was made to panic; only late events matter
			for _, e := range v.Late {
				all = append(all, Violation{Clause: "event-after-return", Method: MethodNames[c.Method], Msg: fmt.Sprintf("%s: rule %d still running after the panicking call had returned", c, e.B), Call: c.Idx})
				break
			}
			continue
		}
		all = append(all, CheckCall(w.Sc, v, rs, w.EM)...)
	}
	return all
}

func describeOps(ops []*MgmtOp) string {
	var ss []string
	for _, o := range ops {
		ss = append(ss, o.String())
	}
	return strings.Join(ss, "; ")
}
