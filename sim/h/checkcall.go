package h

import (
	"fmt"
	"sort"
	"strconv"
	"strings"
)

// CheckCall evaluates every per-call oracle clause on one observed call.
// rs is the rule set the call ran against, em the pool execution model (0 for
// a bare engine).  Clause names are grouped by property in clauses.go.
func CheckCall(sc *Scenario, v *CallView, rs RuleSet, em int) []Violation {
	var out []Violation
	c := v.C
	mname := MethodNames[c.Method]
	add := func(clause, detail, msg string) {
		out = append(out, Violation{Clause: clause, Method: mname, Detail: detail, Msg: msg, Call: c.Idx})
	}
	if v.CB < 0 {
		return nil // never invoked (run ended earlier)
	}
	c.mu.Lock()
	done, panicked, pv := c.Done, c.Panicked, c.PanicVal
	var errS string
	if c.Err != nil {
		errS = c.Err.Error()
	}
	res := c.ResultAtReturn
	resNow := deepCopyResult(c.Result)
	c.mu.Unlock()
	if !done {
		return nil // the run was abandoned while the call was in flight; the run-level verdict says why
	}
	if panicked {
		add("api-panic", c.PanicSite, fmt.Sprintf("%s: panic escaped the call: %s", c, firstLine(pv)))
	}
	for _, e := range v.Late {
		add("event-after-return", "", fmt.Sprintf("%s: rule %d still running (event kind %d, #%d) after the call had returned (#%d)", c, e.B, e.Kind, e.Seq, v.CR))
		break
	}
	for _, e := range v.Stray {
		add("stray-event", "", fmt.Sprintf("%s: event kind %d of rule %d on task %d outside any execution", c, e.Kind, e.B, e.Task))
		break
	}
	specs := SpecsForView(v, rs, em)
	c.mu.Lock()
	preset := c.TagAtEntry
	c.mu.Unlock()
	if preset && HasTag(c.Method) {
		// The caller's Stag was still raised from an earlier call.  What a call owes then is not spelled out
		// (run nothing? run one rule?), except for this: once a rule of *this* call has set the tag, no further
		// rule starts.
		specs = []Spec{{NoJudge: true, Why: "the stop tag was already raised when the call began"}}
		if !panicked && len(v.Execs) > 0 {
			xs := append([]*Exec(nil), v.Execs...)
			sort.SliceStable(xs, func(i, j int) bool { return xs[i].First < xs[j].First })
			var setter *Exec
			for _, x := range xs {
				if x.StopSet && (setter == nil || x.Last < setter.Last) {
					setter = x
				}
			}
			sorted := c.Method != MMixStopTag
			if setter != nil && (sorted || setter == xs[0]) {
				for _, x := range xs {
					if x != setter && x.First > setter.Last {
						add("ran-after-stop", "tag-kept-raised", fmt.Sprintf("%s: rule %d set the stop tag (it was still raised from an earlier call) and rule %d started afterwards", c, setter.Rule, x.Rule))
						break
					}
				}
			}
		}
	}
	noJudge := len(specs) > 0 && specs[0].NoJudge
	if !panicked {
		out = append(out, CheckAgainstSpecs(v, specs, rs)...)
	}

	// --- identity of the reported failure under stop-on-error in the sorted variants (C04)
	if !panicked && !noJudge && len(specs) > 0 && !specs[0].MustErr {
		sp := specs[0]
		if len(sp.Stages) == 1 && sp.Stages[0].Mode != ModeUnordered && !sp.Stages[0].Cont {
			for _, x := range v.Execs {
				if !x.Fired {
					continue
				}
				rd := sc.Rule(x.Rule)
				if rd != nil && x.FirePoint < len(rd.Secs) && MarkerFault(rd.Secs[x.FirePoint].Kind) {
					// "that failure is returned": the error carries the failure's own text, or at least names the rule
					if m := Marker(c.Idx, int64(x.Rule), int64(x.FirePoint)); !strings.Contains(errS, m) && !strings.Contains(errS, "\""+strconv.Itoa(x.Rule)+"\"") {
						add("wrong-failure-returned", "", fmt.Sprintf("%s: the first failure is %s of rule %d but the returned error carries neither: %.120q", c, m, x.Rule, errS))
					}
				}
				break
			}
		}
	}

	// --- result map (C11)
	if !panicked {
		want := map[string]interface{}{}
		for _, x := range v.Execs {
			rd := sc.Rule(x.Rule)
			if rd == nil {
				continue
			}
			returned, val := false, interface{}(nil)
			retPoint := len(rd.Secs)
			switch rd.Ret {
			case RetNestedV, RetLoop, RetElse, RetForRange, RetElseIf, RetBreak, RetContinue:
				returned, val = x.RetTrue, int64(x.Ver)*1000+int64(x.Rule)
			case RetReq:
				returned = x.RetTrue
				if c.Req != nil {
					val = c.Req.ID
				}
			case RetUnexp:
				returned = false
			case RetNestedB:
				returned = x.RetTrue
			case RetKind:
				returned, val = x.RetTrue && !(x.Fired && x.FirePoint == retPoint), int64(x.Ver)*1000+int64(x.Rule)
			case RetTop, RetTopLoop:
				returned, val = x.Ended && !x.Fired, int64(x.Ver)*1000+int64(x.Rule)
			case RetTopB:
				returned = x.Ended && !x.Fired
			case RetTopKind:
				returned, val = x.Ended && !x.Fired, int64(x.Ver)*1000+int64(x.Rule)
			}
			if returned {
				want[strconv.Itoa(x.Rule)] = val
			}
		}
		if d := diffResult(want, res); d != "" {
			kind := "result-map"
			add(kind, resultDetail(want, res), fmt.Sprintf("%s: result map differs from the rules that returned in this call: %s", c, d))
		}
		if d := diffResult(res, resNow); d != "" {
			add("result-map-modified-after-return", "", fmt.Sprintf("%s: the result map changed after the call returned: %s", c, d))
		}
	}

	// --- locals (C15)
	for _, x := range v.Execs {
		rd := sc.Rule(x.Rule)
		if rd == nil {
			continue
		}
		if rd.Has(SecReader) {
			if len(x.Sames) > 0 {
				nm := "x"
				for _, sec := range rd.Secs {
					if sec.Kind == SecReader {
						nm = rd.ReaderName(sec.Arg)
					}
				}
				add("unassigned-local-visible", "", fmt.Sprintf("%s: rule %d read local %s (=%d) that it never assigned", c, x.Rule, nm, x.Sames[0]))
			}
			continue
		}
		if x.FreshSeq >= 0 {
			for _, s := range x.Sames {
				if s != x.FreshSeq+1000000 {
					add("local-changed-by-other-execution", "", fmt.Sprintf("%s: rule %d assigned x=%d and read back %d", c, x.Rule, x.FreshSeq+1000000, s))
				}
			}
			if x.Ended && len(x.Sames) == 0 {
				add("local-lost", "", fmt.Sprintf("%s: rule %d assigned x but could not read it back", c, x.Rule))
			}
			if !x.Ended && !x.Fired && len(x.Sames) == 0 && v.CR >= 0 && !panicked && rd.Has(SecLocal) && onlyPlainSections(rd) {
				// nothing was planned to fail in this rule and nothing in it can: it stopped where it reads its own local back
				add("local-lost", "read-failed", fmt.Sprintf("%s: rule %d assigned x and then failed where it reads x back (no fault was planned in it)", c, x.Rule))
			}
		}
	}

	// --- a forRange loop key is a local too (C15)
	for _, x := range v.Execs {
		for _, e := range x.Own {
			if e.Kind == EvObj {
				rd := sc.Rule(x.Rule)
				if rd != nil && rd.Has(SecLocObjReader) {
					add("unassigned-local-visible", "method-on-local", fmt.Sprintf("%s: rule %d called a method on local lo, which it never assigned (it reached object %d)", c, x.Rule, e.C))
				} else if e.C != int64(x.Rule)+500 {
					add("local-changed-by-other-execution", "method-on-local", fmt.Sprintf("%s: rule %d keeps its own object (%d) in local lo, the method call reached object %d", c, x.Rule, x.Rule+500, e.C))
				}
			}
			if e.Kind == EvAlias && (e.C == 4 || e.C&8 != 0) {
				continue
			}
			if e.Kind == EvAlias && e.C == 32 {
				add("stale-injected-key-visible", "function", fmt.Sprintf("%s: rule %d called the function ofn although this request did not inject it", c, x.Rule))
				continue
			}
			if e.Kind == EvAlias && e.C == 16 {
				add("foreign-request-data", "api-entry", fmt.Sprintf("%s: rule %d found a value in the by-value api entry QA that is neither the constructor's nor assigned by this request", c, x.Rule))
				continue
			}
			if e.Kind == EvAlias && e.C&2 != 0 {
				add("local-update-changed-injected-data", "", fmt.Sprintf("%s: rule %d copied an injected field / element into a local and updated the local; the injected value changed with it", c, x.Rule))
			} else if e.Kind == EvAlias && e.C&1 != 0 {
				add("local-changed-by-other-execution", "copied-from-injected", fmt.Sprintf("%s: rule %d: a local copied from an injected value and updated in place does not hold its own result", c, x.Rule))
			}
			if e.Kind == EvKey && e.C != int64(x.Rule)+700 {
				add("local-changed-by-other-execution", "forRange-key", fmt.Sprintf("%s: rule %d iterates its own one-entry map (key %d) and its loop body saw key %d", c, x.Rule, x.Rule+700, e.C))
			}
		}
	}

	// --- injected names are shared by all rules of the call (C15): in the sorted variants a rule
	// reading Resp.Mark sees what the latest earlier rule of this call stored there
	if !panicked && !noJudge && len(specs) > 0 && !specs[0].MustErr && len(specs[0].Stages) == 1 && specs[0].Stages[0].Mode != ModeUnordered {
		var evs []struct {
			seq  int64
			kind int32
			rule int
			val  int64
		}
		for _, x := range v.Execs {
			for _, e := range x.Own {
				if e.Kind == EvShW || e.Kind == EvShR {
					evs = append(evs, struct {
						seq  int64
						kind int32
						rule int
						val  int64
					}{e.Seq, e.Kind, x.Rule, e.C})
				}
			}
		}
		sort.Slice(evs, func(i, j int) bool { return evs[i].seq < evs[j].seq })
		last := int64(0)
		for _, e := range evs {
			if e.kind == EvShW {
				last = int64(e.rule)
			} else if e.val != last {
				add("shared-injected-not-visible", "", fmt.Sprintf("%s: rule %d read Resp.Mark=%d, the latest earlier rule of this call stored %d", c, e.rule, e.val, last))
			}
		}
	}

	// --- conc blocks (C18)
	for _, x := range v.Execs {
		rd := sc.Rule(x.Rule)
		if rd == nil || len(x.Kids) == 0 && !rd.Has(SecConc) {
			continue
		}
		for p, s := range rd.Secs {
			if s.Kind != SecConc {
				continue
			}
			starts, ends := map[int]int{}, map[int]int{}
			minSeq, maxSeq := int64(-1), int64(-1)
			fired := false
			nExtra := ConcExtras(s.Arg)
			extraStarts := make([]int, nExtra)
			for _, e := range x.Kids {
				code := int(e.C)
				if e.Kind == EvK {
					code >>= 1
				}
				if code >= extraBase {
					if (code-extraBase)/64 != p {
						continue
					}
					if j := (code - extraBase) % 64; e.Kind == EvK && j < nExtra {
						extraStarts[j]++
					} else if e.Kind == EvK {
						add("conc-child-count", "extra", fmt.Sprintf("%s: rule %d ran a conc statement (%d) its block does not have", c, x.Rule, j))
					}
					if minSeq < 0 || e.Seq < minSeq {
						minSeq = e.Seq
					}
					if e.Seq > maxSeq {
						maxSeq = e.Seq
					}
					continue
				}
				if code/8 != p {
					continue
				}
				if e.Kind == EvK {
					starts[code%8]++
					if e.C&1 == 1 {
						fired = true
					}
				} else {
					ends[code%8]++
				}
				if minSeq < 0 || e.Seq < minSeq {
					minSeq = e.Seq
				}
				if e.Seq > maxSeq {
					maxSeq = e.Seq
				}
			}
			if minSeq < 0 {
				continue // block not reached
			}
			for k := 0; k < NumChild; k++ {
				wantN := 0
				if s.Arg&(1<<uint(k)) != 0 {
					wantN = 1
				}
				if starts[k] != wantN {
					add("conc-child-count", fmt.Sprintf("child%d", k), fmt.Sprintf("%s: rule %d conc child %d ran %d times, want %d", c, x.Rule, k, starts[k], wantN))
				}
			}
			for j, n := range extraStarts {
				if n != 1 {
					add("conc-child-count", "extra", fmt.Sprintf("%s: rule %d: statement %d of the %d further statements of its conc block ran %d times, want 1", c, x.Rule, j, nExtra, n))
					break
				}
			}
			// the parent's next own event must come after every child event
			var next int64 = -1
			var after *int64
			for i := range x.Own {
				if x.Own[i].Seq > minSeq {
					next = x.Own[i].Seq
					break
				}
			}
			if next < 0 && v.CR >= 0 {
				// the rule emitted nothing after the block (it failed): whatever the executing task did next
				next = nextEventOfTask(v, x)
			}
			if next >= 0 && next < maxSeq {
				add("conc-join", "", fmt.Sprintf("%s: rule %d went on (#%d) before all statements of its conc block had finished (#%d)", c, x.Rule, next, maxSeq))
			}
			for i := range x.Afters {
				if int(x.Afters[i].C>>1) == p {
					after = &x.Afters[i].C
				}
			}
			if fired {
				if after != nil {
					add("conc-error-lost", "", fmt.Sprintf("%s: rule %d ran the statement after a conc block although a child had failed", c, x.Rule))
				}
			} else {
				if after == nil {
					if v.CR >= 0 {
						add("conc-next-statement-missing", "", fmt.Sprintf("%s: rule %d never ran the statement after its conc block", c, x.Rule))
					}
				} else if *after&1 == 0 {
					add("conc-assignment-lost", "", fmt.Sprintf("%s: rule %d: the statement after the conc block did not see every value its children assigned", c, x.Rule))
				}
			}
		}
	}

	// --- a plain name that this call injects is shared: what a rule assigned to it is what the caller finds there (C15)
	c.mu.Lock()
	ov := c.OvPtr
	c.mu.Unlock()
	if ov != nil && !panicked && v.CR >= 0 {
		assigned := map[int64]bool{}
		for _, x := range v.Execs {
			for _, e := range x.Own {
				if e.Kind == EvAlias && e.C == 4 {
					assigned[int64(x.Rule)+300] = true
				}
			}
		}
		if len(assigned) > 0 && !assigned[*ov] {
			add("shared-injected-not-visible", "assigned-name", fmt.Sprintf("%s: rules assigned the injected name ov (%v) but the caller's variable holds %d", c, assigned, *ov))
		}
	}

	// --- request identity (C06), shared injected data (C15)
	for _, x := range v.Execs {
		for _, e := range x.Own {
			switch e.Kind {
			case EvId:
				if c.Req != nil && e.C != c.Req.ID {
					add("foreign-request-data", "", fmt.Sprintf("%s: rule %d read Req.ID=%d, own id is %d", c, x.Rule, e.C, c.Req.ID))
				}
			case EvOpt:
				if !c.HasOpt {
					add("stale-injected-key-visible", "", fmt.Sprintf("%s: rule %d read Opt.ID=%d although this request did not inject Opt", c, x.Rule, e.C))
				} else if c.Req != nil && e.C != c.Req.ID {
					add("foreign-request-data", "", fmt.Sprintf("%s: rule %d read Opt.ID=%d, own id is %d", c, x.Rule, e.C, c.Req.ID))
				}
			}
		}
	}
	return out
}

// onlyPlainSections: the rule consists of sections that never fail by themselves.
func onlyPlainSections(rd *RuleDef) bool {
	for _, s := range rd.Secs {
		switch s.Kind {
		case SecY, SecLocal, SecShW, SecShR:
		default:
			return false
		}
	}
	return rd.Ret == RetNone || rd.Ret == RetNestedV
}

func nextEventOfTask(v *CallView, x *Exec) int64 {
	// the earliest event after x.LastOwn emitted by x's task in any execution of this call, else the call return
	best := int64(-1)
	for _, y := range v.Execs {
		if y.Task == x.Task && y.First > x.LastOwn {
			if best < 0 || y.First < best {
				best = y.First
			}
		}
	}
	if best < 0 {
		best = v.CR
	}
	return best
}

func firstLine(s string) string {
	if i := strings.IndexByte(s, '\n'); i >= 0 {
		s = s[:i]
	}
	if len(s) > 160 {
		s = s[:160]
	}
	return s
}

func asInt(v interface{}) (int64, bool) {
	switch t := v.(type) {
	case int64:
		return t, true
	case int:
		return int64(t), true
	}
	return 0, false
}

func diffResult(want, got map[string]interface{}) string {
	var ds []string
	keys := map[string]bool{}
	for k := range want {
		keys[k] = true
	}
	for k := range got {
		keys[k] = true
	}
	var ks []string
	for k := range keys {
		ks = append(ks, k)
	}
	sort.Strings(ks)
	for _, k := range ks {
		w, wok := want[k]
		g, gok := got[k]
		switch {
		case wok && !gok:
			ds = append(ds, fmt.Sprintf("missing %s=%v", k, w))
		case !wok && gok:
			ds = append(ds, fmt.Sprintf("unexpected %s=%v", k, g))
		default:
			wi, w1 := asInt(w)
			gi, g1 := asInt(g)
			if w == nil && g == nil {
				continue
			}
			if !(w1 && g1 && wi == gi) {
				ds = append(ds, fmt.Sprintf("%s: want %v got %v", k, w, g))
			}
		}
	}
	if want == nil && got == nil {
		return ""
	}
	return strings.Join(ds, "; ")
}

func resultDetail(want, got map[string]interface{}) string {
	if got == nil {
		return "nil-map"
	}
	for k := range got {
		if _, ok := want[k]; !ok {
			return "unexpected-entry"
		}
	}
	for k := range want {
		if _, ok := got[k]; !ok {
			return "missing-entry"
		}
	}
	return "wrong-value"
}
