package h

import (
	"fmt"
	"sort"
	"strconv"
	"strings"

	"github.com/bilibili/gengine/builder"
	"github.com/bilibili/gengine/context"
	"github.com/bilibili/gengine/engine"
	"verif/sim/simrt"
	sync "verif/sim/simsync"
)

// ---- rule-set algebra reference model (C08, C10, C16) --------------------------

// MRule is a rule as the model sees it.
type MRule struct {
	Sal, Ver int
}

// SetModel is the denoted rule set: name (decimal id) -> rule.
type SetModel map[int]MRule

func (m SetModel) clone() SetModel {
	o := SetModel{}
	for k, v := range m {
		o[k] = v
	}
	return o
}

func (m SetModel) String() string {
	ids := make([]int, 0, len(m))
	for id := range m {
		ids = append(ids, id)
	}
	sort.Ints(ids)
	var ss []string
	for _, id := range ids {
		ss = append(ss, fmt.Sprintf("%d:(sal %d, v%d)", id, m[id].Sal, m[id].Ver))
	}
	return "{" + strings.Join(ss, " ") + "}"
}

// MgmtOp is one management operation of a history.
type MgmtOp struct {
	Kind    int // OpFull, OpIncr, OpRemove, OpClear, OpSetEM, queries ...
	Rules   []MRuleDef
	Names   []string
	Text    string
	Invalid bool // the text was broken on purpose: the operation must fail and change nothing
	EM      int
}

type MRuleDef struct{ ID, Sal, Ver int }

const (
	OpFull = iota
	OpIncr
	OpRemove
	OpClear
	OpSetEM
	OpQuery
	OpProbe
)

var opKindNames = [...]string{"full", "incremental", "remove", "clear", "setExecModel", "query", "probe"}

func (o *MgmtOp) String() string {
	s := opKindNames[o.Kind]
	switch o.Kind {
	case OpFull, OpIncr:
		var rs []string
		for _, r := range o.Rules {
			rs = append(rs, fmt.Sprintf("%d(sal %d v%d)", r.ID, r.Sal, r.Ver))
		}
		s += " [" + strings.Join(rs, " ") + "]"
		if o.Invalid {
			s += " INVALID-TEXT"
		}
	case OpRemove:
		s += " [" + strings.Join(o.Names, ",") + "]"
	case OpSetEM:
		s += fmt.Sprintf(" %d", o.EM)
	}
	return s
}

// apply computes the model successor of a successful operation.
func (m SetModel) apply(o *MgmtOp) SetModel {
	switch o.Kind {
	case OpFull:
		n := SetModel{}
		for _, r := range o.Rules {
			n[r.ID] = MRule{r.Sal, r.Ver}
		}
		return n
	case OpIncr:
		n := m.clone()
		for _, r := range o.Rules {
			n[r.ID] = MRule{r.Sal, r.Ver}
		}
		return n
	case OpRemove:
		n := m.clone()
		for _, s := range o.Names {
			if id, err := strconv.Atoi(s); err == nil {
				delete(n, id)
			}
		}
		return n
	case OpClear:
		return SetModel{}
	}
	return m
}

// SalRule renders the body used by the management-history workloads: start
// event, the rule's own view of its salience, a version-tagged return.
func SalRule(id, sal, ver int) string {
	return fmt.Sprintf("rule \"%d\" \"d%dv%d\" salience %d\nbegin\nH.S(%d,%d)\nH.Sal(%d,@sal)\nH.Meta(%d,%d,@name,@desc,@id)\nreturn %d\nend\n", id, id, ver, sal, id, ver, id, id, ver, ver*1000+id)
}

func renderOpText(o *MgmtOp) string {
	var b strings.Builder
	for _, r := range o.Rules {
		b.WriteString(SalRule(r.ID, r.Sal, r.Ver))
	}
	return b.String()
}

// breakText makes a text that no entry point may accept, in a way chosen by k.
func breakText(t string, k int) string {
	switch k % 5 {
	case 0:
		return strings.Replace(t, "begin", "begn", 1)
	case 1:
		return strings.Replace(t, "end\n", "", 1) + " rule"
	case 2:
		i := strings.Index(t, "H.S(")
		return t[:i] + "H.S((" + t[i+4:]
	case 3:
		// the same rule twice
		i := strings.Index(t, "end\n")
		return t + t[:i+4]
	default:
		return strings.Replace(t, "salience", "salience x", 1)
	}
}

const EvSal = 43 // a rule reports its own salience: B = rule, C = @sal

func (h *H) Sal(r, s int64) { simrt.Emit(EvSal, int64(h.c.Idx), r, s) }

const EvMeta = 44 // a rule reports its own @name/@desc/@id: B = rule, C = bit mask of the ones that are right

// Meta compares the rule's metadata constants with what its text declared.
func (h *H) Meta(r, v int64, name, desc string, id int64) {
	ok := int64(0)
	if name == strconv.FormatInt(r, 10) {
		ok |= 1
	}
	if desc == fmt.Sprintf("d%dv%d", r, v) {
		ok |= 2
	}
	if id == r {
		ok |= 4
	}
	simrt.Emit(EvMeta, int64(h.c.Idx), r, ok)
}

// GenMgmtOp draws one builder-level management operation.
func (g *G) GenMgmtOp(cur SetModel, nNames, salSpan int, ver *int, kinds []int, invalidPct int) *MgmtOp {
	o := &MgmtOp{Kind: g.PickInt(kinds)}
	if o.Kind == OpFull && len(g.Hist) > 0 && g.Pct(20) {
		h := g.Hist[g.Intn(len(g.Hist))]
		return &MgmtOp{Kind: OpFull, Rules: h.Rules, Text: h.Text}
	}
	switch o.Kind {
	case OpFull, OpIncr:
		k := g.Range(1, 4)
		if nNames > 6 && g.Pct(40) {
			k = g.Range(1, nNames) // large batches on large name sets
		}
		if k > nNames {
			k = nNames
		}
		ids := make([]int, nNames)
		for i := range ids {
			ids[i] = i + 1
		}
		for i := len(ids) - 1; i > 0; i-- {
			j := i - g.Intn(i+1)
			ids[i], ids[j] = ids[j], ids[i]
		}
		*ver++
		for _, id := range ids[:k] {
			sal := g.Salience(salSpan)
			if old, ok := cur[id]; ok && o.Kind == OpIncr && g.Pct(40) {
				sal = old.Sal // same-salience replacement
			}
			o.Rules = append(o.Rules, MRuleDef{id, sal, *ver})
		}
		o.Text = renderOpText(o)
		if g.Pct(invalidPct) {
			o.Invalid = true
			o.Text = breakText(o.Text, g.Intn(5))
		} else if o.Kind == OpFull {
			g.Hist = append(g.Hist, o)
		}
	case OpRemove:
		switch g.Intn(5) {
		case 0: // nothing
		case 1: // everything
			for id := range cur {
				o.Names = append(o.Names, strconv.Itoa(id))
			}
			sort.Strings(o.Names)
		default:
			for id := 1; id <= nNames+1; id++ { // nNames+1 is never present
				if g.Pct(35) {
					o.Names = append(o.Names, strconv.Itoa(id))
				}
			}
		}
	case OpSetEM:
		o.EM = g.Range(0, 5) // 0 and 5 are invalid
	}
	if o.Kind == OpRemove && len(o.Names) > 0 && g.Pct(25) {
		// the same name more than once: the list still denotes a set
		for k := g.Range(1, 2); k > 0; k-- {
			o.Names = append(o.Names, o.Names[g.Intn(len(o.Names))])
		}
	}
	return o
}

// observeSort executes the sort model and returns the (id, ver, @sal) triples in execution order.
type obsRule struct {
	ID, Ver, Sal int
	Meta         int // -1: not reported
}

func obsFromEvents(evs []simrt.Event, call int) []obsRule {
	var out []obsRule
	for _, e := range evs {
		if int(e.A) != call {
			continue
		}
		switch e.Kind {
		case EvS:
			out = append(out, obsRule{ID: int(e.B), Ver: int(e.C), Sal: -999, Meta: -1})
		case EvSal:
			for i := len(out) - 1; i >= 0; i-- {
				if out[i].ID == int(e.B) {
					out[i].Sal = int(e.C)
					break
				}
			}
		case EvMeta:
			for i := len(out) - 1; i >= 0; i-- {
				if out[i].ID == int(e.B) {
					out[i].Meta = int(e.C)
					break
				}
			}
		}
	}
	return out
}

// checkObserved compares one sort-model observation with the model.
func checkObserved(obs []obsRule, m SetModel, where string, add func(clause, detail, msg string)) {
	seen := map[int]int{}
	for i, o := range obs {
		seen[o.ID]++
		mr, ok := m[o.ID]
		if !ok {
			add("ruleset-extra-rule", "", fmt.Sprintf("%s: rule %d (v%d) ran but the denoted set is %v", where, o.ID, o.Ver, m))
			continue
		}
		if mr.Ver != o.Ver {
			add("ruleset-wrong-version", "", fmt.Sprintf("%s: rule %d ran as v%d, the denoted set has v%d", where, o.ID, o.Ver, mr.Ver))
		}
		if o.Meta >= 0 && o.Meta != 7 {
			add("ruleset-wrong-metadata", "", fmt.Sprintf("%s: rule %d v%d reports wrong @name/@desc/@id (ok mask %03b)", where, o.ID, o.Ver, o.Meta))
		}
		if o.Sal != -999 && mr.Sal != o.Sal {
			add("ruleset-wrong-salience", "", fmt.Sprintf("%s: rule %d reports salience %d, the denoted set has %d", where, o.ID, o.Sal, mr.Sal))
		}
		if i > 0 {
			if p, ok := m[obs[i-1].ID]; ok && p.Sal < mr.Sal {
				add("ruleset-order", "", fmt.Sprintf("%s: rule %d (salience %d) ran after rule %d (salience %d)", where, o.ID, mr.Sal, obs[i-1].ID, p.Sal))
			}
		}
	}
	for id, n := range seen {
		if n > 1 {
			add("ruleset-duplicate", "", fmt.Sprintf("%s: rule %d ran %d times in one sort-model execution", where, id, n))
		}
	}
	for id := range m {
		if seen[id] == 0 {
			add("ruleset-missing-rule", "", fmt.Sprintf("%s: rule %d of the denoted set %v did not run", where, id, m))
		}
	}
}

// RunW3Builder is the management-history workload on a bare RuleBuilder (C08).
func RunW3Builder(plan, sched *simrt.Source, trace bool) *RunOut {
	g := &G{S: plan}
	o := &RunOut{}
	cfg := g.GenConfig(trace)
	nNames := g.Range(1, 6)
	if g.Pct(5) {
		nNames = g.PickInt([]int{7, 9, 12, 17, 24}) // "arbitrary sets of rule names": a few large ones
	}
	salSpan := g.Range(0, 2)
	nOps := 1 + g.Intn(deep(12, 12))
	ver := 0
	model := SetModel{}
	var ops []*MgmtOp
	var models []SetModel // expected model after op i
	for i := 0; i < nOps; i++ {
		kinds := []int{OpIncr, OpIncr, OpIncr, OpFull, OpRemove, OpRemove}
		if i == 0 && g.Pct(70) {
			kinds = []int{OpFull}
		}
		op := g.GenMgmtOp(model, nNames, salSpan, &ver, kinds, 8)
		ops = append(ops, op)
		if !op.Invalid && !(op.Kind == OpRemove && len(op.Names) == 0) {
			model = model.apply(op)
		}
		models = append(models, model)
	}
	o.Describe = func() []string {
		out := []string{fmt.Sprintf("config: shuffleMaps=%v names=1..%d", cfg.ShuffleMaps, nNames)}
		for i, op := range ops {
			out = append(out, fmt.Sprintf("op %d: %s  => %v", i, op, models[i]))
		}
		return out
	}
	sc := &Scenario{}
	sc.Index()
	calls := make([]*Call, nOps)
	for i := range calls {
		calls[i] = &Call{Idx: i, Method: MExecute, B: true, Plan: map[int]*RulePlan{}}
	}
	sc.Calls = calls
	dc := context.NewDataContext()
	rb := builder.NewRuleBuilder(dc)
	eng := engine.NewGengine()
	type res struct {
		err      error
		panicked string
		exist    []bool
	}
	results := make([]res, nOps)
	probe := make([]string, nNames+2)
	for i := range probe {
		probe[i] = strconv.Itoa(i + 1)
	}
	run := simrt.NewRun(cfg, sched)
	run.Execute(func() {
		for i, op := range ops {
			func() {
				defer func() {
					if e := recover(); e != nil {
						results[i].panicked = fmt.Sprint(e)
					}
				}()
				switch op.Kind {
				case OpFull:
					results[i].err = rb.BuildRuleFromString(op.Text)
				case OpIncr:
					results[i].err = rb.BuildRuleWithIncremental(op.Text)
				case OpRemove:
					results[i].err = rb.RemoveRules(op.Names)
				}
			}()
			InvokeEngine(sc, eng, rb, calls[i])
			results[i].exist = rb.IsExist(probe)
		}
	})
	fillStats(o, run)
	o.PlanRec, o.SchedRec = plan.Rec, sched.Rec
	if run.End == simrt.EndInfra {
		o.Infra = run.EndInfo
		return o
	}
	var all []Violation
	for i, op := range ops {
		where := fmt.Sprintf("after op %d (%s)", i, op)
		add := func(clause, detail, msg string) {
			all = append(all, Violation{Clause: clause, Method: opKindNames[op.Kind], Detail: detail, Msg: msg, Call: i})
		}
		r := results[i]
		if r.panicked != "" {
			add("mgmt-panic", "", fmt.Sprintf("op %d (%s) panicked: %s", i, op, firstLine(r.panicked)))
			break
		}
		if !calls[i].Done {
			break
		}
		if op.Invalid && r.err == nil {
			add("invalid-text-accepted", "", fmt.Sprintf("op %d (%s): a broken text was accepted:\n%s", i, op, op.Text))
		}
		if !op.Invalid && r.err != nil && !(op.Kind == OpRemove && len(op.Names) == 0) {
			add("valid-operation-rejected", "", fmt.Sprintf("op %d (%s) failed: %v", i, op, r.err))
		}
		checkObserved(obsFromEvents(run.Events, i), models[i], where, add)
		for k, name := range probe {
			id, _ := strconv.Atoi(name)
			_, want := models[i][id]
			if k < len(r.exist) && r.exist[k] != want {
				add("exist-query-disagrees", "", fmt.Sprintf("%s: IsExist(%s)=%v, the denoted set is %v", where, name, r.exist[k], models[i]))
			}
		}
		o.count("mgmt_ops/"+opKindNames[op.Kind], 1)
		if op.Invalid {
			o.count("fault_fired/compile_fault", 1)
		}
	}
	for _, v := range runLevel(run, "management history") {
		all = append(all, v)
	}
	o.Violations = all
	o.NonTrivial = nOps >= 2
	return o
}

// RunBuilderConc lets several tasks perform management operations and existence queries on one
// shared RuleBuilder at the same time (C19: builder mutations are serialised by its lock).  The only
// oracles are the race detector, panics and deadlocks.
func RunBuilderConc(plan, sched *simrt.Source, trace bool) *RunOut {
	g := &G{S: plan}
	o := &RunOut{}
	cfg := g.GenConfig(trace)
	nNames := g.Range(2, 5)
	nTasks := g.Range(2, 3)
	ver := 0
	cur := SetModel{}
	ops := make([][]*MgmtOp, nTasks)
	for t := range ops {
		for k := g.Range(1, 4); k > 0; k-- {
			op := g.GenMgmtOp(cur, nNames, 2, &ver, []int{OpFull, OpIncr, OpIncr, OpRemove, OpQuery}, 10)
			ops[t] = append(ops[t], op)
		}
	}
	o.Describe = func() []string {
		var out []string
		for t, l := range ops {
			for k, op := range l {
				out = append(out, fmt.Sprintf("task %d op %d: %s", t, k, op))
			}
		}
		return out
	}
	rb := builder.NewRuleBuilder(context.NewDataContext())
	probe := []string{"1", "2", "3"}
	var panics []string
	var pmu sync.Mutex
	run := simrt.NewRun(cfg, sched)
	run.Execute(func() {
		_ = rb.BuildRuleFromString(SalRule(1, 0, 0))
		var wg sync.WaitGroup
		for t := range ops {
			t := t
			wg.Add(1)
			simrt.Go(func() {
				defer wg.Done()
				defer func() {
					if e := recover(); e != nil {
						pmu.Lock()
						panics = append(panics, fmt.Sprint(e))
						pmu.Unlock()
					}
				}()
				for _, op := range ops[t] {
					switch op.Kind {
					case OpFull:
						_ = rb.BuildRuleFromString(op.Text)
					case OpIncr:
						_ = rb.BuildRuleWithIncremental(op.Text)
					case OpRemove:
						_ = rb.RemoveRules(op.Names)
					default:
						_ = rb.IsExist(probe)
					}
				}
			})
		}
		wg.Wait()
	})
	fillStats(o, run)
	o.PlanRec, o.SchedRec = plan.Rec, sched.Rec
	if RaceMode {
		CollectRaces(o)
	}
	pmu.Lock()
	for _, p := range panics {
		o.Violations = append(o.Violations, Violation{Clause: "mgmt-panic", Method: "builder", Msg: "a builder operation panicked while another task used the builder: " + firstLine(p)})
	}
	pmu.Unlock()
	for _, v := range runLevel(run, "concurrent builder operations") {
		o.Violations = append(o.Violations, v)
	}
	o.NonTrivial = run.St.Decisions > 0
	return o
}
