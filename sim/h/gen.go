package h

import (
	"strconv"

	"verif/sim/simrt"
)

// Profile steers the generators of one property's workloads.
type Profile struct {
	Methods   []int       // candidate execute methods (repeat to weight)
	MinRules  int
	MaxRules  int
	SalSpan   int         // saliences are drawn from [-SalSpan, SalSpan]
	Secs      map[int]int // section kind -> weight
	MaxSecs   int
	Rets      []int       // candidate return shapes (repeat to weight)
	FaultPct  int         // % of calls that carry rule faults
	FaultKinds map[int]bool // nil: every fault-capable section present may fire
	GatePct   int         // % of calls in which one rule (or conc child) parks on a gate
	RetPct    int         // % answer "true" of H.Ret
	StopPct   int
	MinCalls  int
	MaxCalls  int
	UnknownNamePct int
	BadNMPct  int
	AllowMPoolEM bool
	TwinUntagged bool // W1: a stop-tag call in which no rule sets the tag is repeated through the untagged variant and compared
	PresetTagPct int // W1: % of stop-tag calls that reuse the previous call's Stag object without lowering it
	LongHistPct int // W1: % of runs that are one long history (70-140 calls) of a single entry point on one engine
	EvolvePct int // W1: % of runs whose rule set changes between calls (incremental builds, removals)
	CarryPct  int // W1: % of runs that are a carry-over probe: one entry point for every call of the run, rules made of CarrySecs only, most calls ending early (fault or stop tag)
	CarrySecs map[int]int
}

// G wraps the plan stream.
type G struct {
	S    *simrt.Source
	Hist []*MgmtOp // valid full-update texts used so far (some later operations resubmit one verbatim)
	LastNames [][]string // name lists of earlier calls of this run (some later calls repeat one verbatim)
}

func (g *G) Intn(n int) int { return g.S.Intn(n) }
func (g *G) Pct(p int) bool { return g.S.Pct(p) }
func (g *G) Range(lo, hi int) int {
	if hi <= lo {
		return lo
	}
	return lo + g.S.Intn(hi-lo+1)
}
func (g *G) PickInt(xs []int) int { return xs[g.S.Intn(len(xs))] }

func keyGroup(k int) int {
	switch k {
	case SecAsgKind, SecArg, SecForStep, SecSetKind:
		return 1
	case SecIfKind, SecForKind, SecElif:
		return 2
	case SecIdx, SecIfIdx, SecMapIdx:
		return 3
	case SecNil, SecIfNil, SecSetNil:
		return 4
	case SecUnb, SecUnbCont:
		return 8
	case SecLocal, SecReader, SecRangeKey:
		return 5
	case SecLocObj, SecLocObjReader:
		return 6
	case SecThreeNil, SecIfThreeNil, SecThreeSet:
		return 7
	}
	return 0
}

var extremeSal = []int{9223372036854775807, -9223372036854775807, 1 << 62, -(1 << 62), 9223372036854775806, 1 << 53}

// Salience draws a salience: small values with deliberate ties, and now and then a boundary value
// (the saliences are int64; comparisons and searches must be exact over the whole range).
func (g *G) Salience(span int) int {
	if g.Pct(6) {
		return extremeSal[g.Intn(len(extremeSal))]
	}
	return g.Range(0, 2*span) - span
}

// GenRule draws one rule.
func (g *G) GenRule(p *Profile, id, ver int) *RuleDef {
	r := &RuleDef{ID: id, Ver: ver, Sal: g.Salience(p.SalSpan)}
	var kinds []int
	for k := 0; k < numSecKinds; k++ {
		for i := 0; i < p.Secs[k]; i++ {
			kinds = append(kinds, k)
		}
	}
	n := 0
	if len(kinds) > 0 {
		n = g.Range(0, p.MaxSecs)
	}
	usedGroup := map[int]bool{}
	if len(p.Rets) > 0 {
		r.Ret = g.PickInt(p.Rets)
	}
	if r.Ret == RetKind || r.Ret == RetTopKind {
		usedGroup[1] = true
	}
	usedKind := map[int]bool{}
	for i := 0; i < n; i++ {
		k := g.PickInt(kinds)
		if gr := keyGroup(k); gr != 0 {
			if usedGroup[gr] {
				continue
			}
			usedGroup[gr] = true
		}
		if k != SecY && usedKind[k] {
			continue // one section per kind keeps texts short; yields may repeat
		}
		usedKind[k] = true
		s := Sec{Kind: k}
		if k == SecReader {
			s.Arg = g.Intn(8)
			if g.Pct(50) {
				s.Arg = 0 // the plain case: local x
			}
		}
		if k == SecConc {
			s.Arg = g.Intn(1 << NumChild) // 0 = empty block
			if s.Arg&(1<<ChAsgLocal|1<<ChAsgLoc2) != 0 && g.Pct(30) {
				s.Arg |= 1 << ChPre // the children overwrite locals declared before the block
			}
			if g.Pct(12) {
				// a long block: up to two dozen further statements of all four forms
				if s.Arg == 0 {
					s.Arg = 1 << ChMethod
				}
				s.Arg |= g.PickInt([]int{1, 2, 3, 5, 8, 9, 12, 16, 17, 23}) << 16
			}
		}
		r.Secs = append(r.Secs, s)
	}
	return r
}

// GenRuleSet draws n rules with ids 1..n.
func (g *G) GenRuleSet(p *Profile) []*RuleDef {
	n := g.Range(p.MinRules, p.MaxRules)
	big := false
	if p.MaxRules >= 4 && g.Pct(3) {
		// "any number of rules": a few runs use a set well beyond the usual sizes (slice growth steps,
		// search depth, fan-out); the rules are kept short
		n = g.PickInt([]int{9, 13, 16, 17, 24, 33, 40})
		big = true
	}
	rs := make([]*RuleDef, n)
	for i := range rs {
		rs[i] = g.GenRule(p, i+1, 1)
		if big {
			if len(rs[i].Secs) > 1 {
				rs[i].Secs = rs[i].Secs[:1]
			}
			// the response object has one field per rule id up to 8: beyond that two rules would write the
			// same field, which is the harness's own interference, not the library's
			for j := range rs[i].Secs {
				sec := &rs[i].Secs[j]
				if sec.Kind == SecConc {
					sec.Arg &^= 1 << ChAsgField
					if sec.Arg&0xff == 0 {
						sec.Arg = 0
					}
				}
				if sec.Kind == SecSetKind && i+1 > 8 {
					sec.Kind = SecY
				}
			}
		}
	}
	// a reader section looks for a local that some *other* rule of the set assigns (where there is one)
	for i, r := range rs {
		for j := range r.Secs {
			if r.Secs[j].Kind != SecReader || r.Secs[j].Arg == 0 {
				continue
			}
			var names []string
			for k, o := range rs {
				if k != i {
					names = append(names, o.AssignedLocals()...)
				}
			}
			if len(names) == 0 {
				continue
			}
			if pref := r.ReaderPref(names[g.Intn(len(names))]); pref >= 0 {
				r.Secs[j].Arg = pref
			}
		}
	}
	return rs
}

func ruleSetOf(rules []*RuleDef) RuleSet {
	rs := RuleSet{}
	for _, r := range rules {
		rs[r.ID] = r.Sal
	}
	return rs
}

// GenNames draws a name list for the selected variants.
func (g *G) GenNames(p *Profile, rules []*RuleDef, wantLen int) []string {
	ids := make([]int, len(rules))
	for i, r := range rules {
		ids[i] = r.ID
	}
	// random permutation (0-draws keep the order)
	for i := len(ids) - 1; i > 0; i-- {
		j := i - g.Intn(i+1)
		ids[i], ids[j] = ids[j], ids[i]
	}
	k := wantLen
	if k < 0 {
		k = g.Range(0, len(ids))
	}
	if k > len(ids) {
		k = len(ids)
	}
	var names []string
	for _, id := range ids[:k] {
		names = append(names, strconv.Itoa(id))
	}
	if g.Pct(p.UnknownNamePct) {
		nUnk := g.Range(1, 2)
		for i := 0; i < nUnk; i++ {
			pos := g.Intn(len(names) + 1)
			names = append(names[:pos], append([]string{strconv.Itoa(90 + i)}, names[pos:]...)...)
		}
		if wantLen >= 0 && len(names) > wantLen && g.Pct(60) {
			// keep the count right so that only the unknown name is wrong
			names = names[:wantLen]
		}
	}
	return names
}

// GenCall draws one call with its behaviour plan.
func (g *G) GenCall(p *Profile, rules []*RuleDef, idx int) *Call {
	c := &Call{Idx: idx, Method: g.PickInt(p.Methods), Plan: map[int]*RulePlan{}, TwinOf: -1}
	n := len(rules)
	if HasB(c.Method) {
		c.B = g.Intn(2) == 1
	}
	if HasNM(c.Method) {
		if g.Pct(p.BadNMPct) {
			c.N = g.Range(-1, n+1)
			c.M = g.Range(-1, n+1)
		} else if n >= 2 {
			c.N = g.Range(1, n-1)
			c.M = g.Range(1, n-c.N)
		} else {
			c.N, c.M = 1, 1
		}
	}
	if HasNames(c.Method) {
		want := -1
		if HasNM(c.Method) {
			want = c.N + c.M
			if g.Pct(p.BadNMPct) {
				want = -1
			}
		}
		if len(g.LastNames) > 0 && g.Pct(20) {
			// the same selection as an earlier call, byte for byte (whatever happened to the rule set since)
			// (the caller's own slice variable again: the very same object, so a library that edits it in place is found out)
			c.PassNames = g.LastNames[g.Intn(len(g.LastNames))]
			c.Names = append([]string(nil), c.PassNames...)
		} else {
			c.Names = g.GenNames(p, rules, want)
			c.PassNames = append([]string(nil), c.Names...)
		}
		g.LastNames = append(g.LastNames, c.PassNames)
	}
	if c.Method == MDAG {
		layers, maxW := g.Range(0, 4), 4
		if g.Pct(6) {
			layers, maxW = g.Range(5, 9), 8 // "any number of layers and widths"
		}
		if n > 8 && g.Pct(50) {
			layers, maxW = g.Range(1, 3), n+3 // large rule sets: layers as wide as the set
		}
		for i := 0; i < layers; i++ {
			w := g.Range(0, maxW)
			var layer []string
			for j := 0; j < w; j++ {
				if n == 0 || g.Pct(p.UnknownNamePct/2) {
					layer = append(layer, strconv.Itoa(90+j))
				} else {
					layer = append(layer, strconv.Itoa(rules[g.Intn(n)].ID))
				}
			}
			c.DAG = append(c.DAG, layer)
		}
	}
	if p.Secs[SecOptName] > 0 {
		c.OptName = g.Pct(50)
	}
	c.UseTag = HasTag(c.Method)
	if c.UseTag && p.PresetTagPct > 0 {
		c.PresetTag = g.Pct(p.PresetTagPct)
	}
	faulty := g.Pct(p.FaultPct)
	gateLeft := g.Pct(p.GatePct)
	for _, r := range rules {
		pl := &RulePlan{Fire: -1, FireChild: -1, GateAt: -1, GateChild: -1, Upd: -1}
		c.Plan[r.ID] = pl
		pl.Ret = g.Pct(p.RetPct)
		if faulty && g.Pct(45) {
			var cands []int
			for i, s := range r.Secs {
				if FaultCapable(s.Kind) && (p.FaultKinds == nil || p.FaultKinds[s.Kind]) {
					if s.Kind == SecConc && s.Arg&0xff == 0 {
						continue
					}
					cands = append(cands, i)
				}
			}
			if (r.Ret == RetKind || r.Ret == RetTopKind) && (p.FaultKinds == nil || p.FaultKinds[-1]) {
				cands = append(cands, len(r.Secs))
			}
			if len(cands) > 0 {
				pl.Fire = g.PickInt(cands)
				if pl.Fire < len(r.Secs) && r.Secs[pl.Fire].Kind == SecConc {
					var ch []int
					for k := 0; k < NumChild; k++ {
						if r.Secs[pl.Fire].Arg&(1<<uint(k)) != 0 {
							ch = append(ch, k)
						}
					}
					pl.FireChild = g.PickInt(ch)
				}
			}
		}
		if gateLeft && g.Pct(40) {
			yks := r.YieldKs()
			ny := len(yks)
			conc := -1
			for i, s := range r.Secs {
				if s.Kind == SecConc && s.Arg&0xff != 0 {
					conc = i
				}
			}
			if conc >= 0 && g.Pct(60) {
				var ch []int
				for k := 0; k < NumChild; k++ {
					if r.Secs[conc].Arg&(1<<uint(k)) != 0 {
						ch = append(ch, k)
					}
				}
				pl.GateChild = g.PickInt(ch)
				gateLeft = false
			} else if ny > 0 {
				pl.GateAt = yks[g.Intn(ny)]
				gateLeft = false
			}
		}
		if r.Has(SecStop) && g.Pct(p.StopPct) {
			pl.Stop = true
		}
	}
	// an endless-loop fault costs a whole loop budget of steps: in a large rule set only a few rules of one
	// call carry one, or the run's step cap would be reached by honest work
	unb := 0
	for _, r := range rules {
		pl := c.Plan[r.ID]
		if pl.Fire >= 0 && pl.Fire < len(r.Secs) && (r.Secs[pl.Fire].Kind == SecUnb || r.Secs[pl.Fire].Kind == SecUnbCont) {
			unb++
			if unb > 4 {
				pl.Fire, pl.FireChild = -1, -1
			}
		}
	}
	return c
}
