package simrt

import (
	"bytes"
	"os"
	"runtime"
	"strconv"
)

// goid returns the id of the calling goroutine (parsed from its stack header).
func goid() int64 {
	var buf [64]byte
	n := runtime.Stack(buf[:], false)
	// "goroutine 123 [running]:"
	f := bytes.Fields(buf[:n])
	if len(f) < 2 {
		return -1
	}
	id, _ := strconv.ParseInt(string(f[1]), 10, 64)
	return id
}

// parkChain lists the runtime / sync / time functions that may sit between runtime.gopark and the
// caller that decided to block in a channel operation, select, sleep, real lock, condition or group.
var parkChain = []string{
	"runtime.gopark", "runtime.goparkunlock", "runtime.chanrecv", "runtime.chansend", "runtime.selectgo", "runtime.block",
	"runtime.semacquire", "runtime.timeSleep", "runtime.notetsleepg", "time.Sleep",
	"sync.runtime_Semacquire", "sync.runtime_SemacquireMutex", "sync.runtime_SemacquireRWMutex", "sync.runtime_SemacquireRWMutexR", "sync.runtime_SemacquireWaitGroup",
	"sync.runtime_notifyListWait", "sync.(*Mutex).", "sync.(*RWMutex).", "sync.(*WaitGroup).", "sync.(*Cond).", "sync.(*Once).",
}

// blockedOutside reports whether goroutine id is parked in a blocking primitive that *its own code*
// called and that is not the simulator's hand-off: the frames between runtime.gopark and the first
// frame outside runtime/sync/time must all belong to parkChain (a park inside the allocator, the
// garbage collector or any other runtime-internal wait does not qualify), and that first outside
// frame must not be the simulator itself.
func blockedOutside(id int64) bool {
	if id <= 0 {
		return false
	}
	buf := make([]byte, 1<<20)
	n := runtime.Stack(buf, true)
	head := []byte("goroutine " + strconv.FormatInt(id, 10) + " [")
	i := bytes.Index(buf[:n], head)
	if i < 0 {
		return false
	}
	blk := buf[i:n]
	if j := bytes.Index(blk, []byte("\n\n")); j >= 0 {
		blk = blk[:j]
	}
	lines := bytes.Split(blk, []byte("\n"))
	if len(lines) < 2 {
		return false
	}
	st := string(lines[0][len(head):])
	parked := false
	for _, k := range []string{"chan receive", "chan send", "select", "sleep", "semacquire", "sync.Cond.Wait", "sync.Mutex.Lock", "sync.RWMutex", "sync.WaitGroup.Wait"} {
		if len(st) >= len(k) && st[:len(k)] == k {
			parked = true
		}
	}
	if !parked {
		return false
	}
	// Stack dumps of other goroutines hide runtime frames.  A goroutine that waits on a semaphore
	// because *its code* called a sync primitive shows sync.* frames on top; one that waits inside
	// the allocator or the collector shows the allocating function on top.
	sawSync := false
	needSync := len(st) >= 10 && st[:10] == "semacquire"
	for _, l := range lines[1:] {
		if len(l) == 0 || l[0] == '\t' {
			continue
		}
		fn := string(l)
		if k := bytes.LastIndexByte(l, '('); k > 0 {
			fn = string(l[:k])
		}
		inChain := false
		for _, p := range parkChain {
			if len(fn) >= len(p) && fn[:len(p)] == p {
				inChain = true
				break
			}
		}
		if inChain {
			if len(fn) >= 5 && fn[:5] == "sync." {
				sawSync = true
			}
			continue
		}
		if needSync && !sawSync {
			return false // a semaphore wait that no sync primitive of the task's own code explains
		}
		if len(fn) >= 8 && fn[:8] == "runtime." {
			return false // a wait inside the runtime (allocator, collector, ...)
		}
		// the first frame of the code that asked to block
		if len(fn) >= 16 && fn[:16] == "verif/sim/simrt." {
			return false // the simulator's own hand-off, merely slow to be served
		}
		if os.Getenv("VERIF_DEBUG_EXTERNAL") != "" {
			os.Stderr.Write(append([]byte("EXTERNAL-BLOCK:\n"), blk...))
			os.Stderr.Write([]byte("\n"))
		}
		return true
	}
	return false
}
