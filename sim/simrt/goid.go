package simrt

import (
	"bytes"
	"runtime"
	"strconv"
)

// goid returns the id of the calling goroutine (parsed from its stack header).
func goid() int64 {
	var buf [64]byte
	n := runtime.Stack(buf[:], false)
	// "goroutine 123 [running]:"
	f := bytes.Fields(buf[:n])
	if len(f) < 2 {
		return -1
	}
	id, _ := strconv.ParseInt(string(f[1]), 10, 64)
	return id
}

// blockedOutside reports whether goroutine id is parked by the runtime in something other than the
// simulator's own hand-off (which never lasts): a channel operation, select, sleep, a real lock or condition.
func blockedOutside(id int64) bool {
	if id <= 0 {
		return false
	}
	buf := make([]byte, 1<<20)
	n := runtime.Stack(buf, true)
	head := []byte("goroutine " + strconv.FormatInt(id, 10) + " [")
	i := bytes.Index(buf[:n], head)
	if i < 0 {
		return false
	}
	rest := buf[i+len(head) : n]
	j := bytes.IndexByte(rest, ']')
	if j < 0 {
		return false
	}
	st := string(rest[:j])
	for _, k := range []string{"chan receive", "chan send", "select", "sleep", "semacquire", "sync.Cond.Wait", "sync.Mutex.Lock", "sync.RWMutex", "sync.WaitGroup.Wait", "IO wait"} {
		if len(st) >= len(k) && st[:len(k)] == k {
			// the task's own hand-off to the scheduler is a channel operation too, but then the step
			// counter moves; the monitor only asks after the counter stood still
			return true
		}
	}
	return false
}
