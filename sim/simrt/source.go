// Package simrt is the deterministic scheduler of the gengine simulation.
//
// Exactly one task (a real goroutine) runs at a time.  A task that reaches a
// scheduling point sends an integer-only message to the scheduler goroutine
// and parks on its private wake channel; the scheduler updates its private
// tables, draws the next task among the enabled ones from the choice source
// and wakes it.  Every decision is a draw on a Source, so one (plan, schedule)
// pair of choice lists is one exactly repeatable execution.
package simrt

import "math/rand/v2"

// Source is a recorded stream of bounded choices.  In search mode the values
// come from a PCG generator; in replay mode from a recorded list (value mod n,
// exhausted => 0).  The reduced value is what gets recorded, so lists are
// small numbers and 0 is always "the simplest choice".
type Source struct {
	rng    *rand.Rand
	replay []uint32
	pos    int
	isRep  bool
	Rec    []uint32
}

// NewSource returns a searching source seeded by two words.
func NewSource(s1, s2 uint64) *Source {
	return &Source{rng: rand.New(rand.NewPCG(s1, s2))}
}

// ReplaySource returns a source that feeds back a recorded list.
func ReplaySource(vals []uint32) *Source {
	return &Source{replay: vals, isRep: true}
}

// Intn returns a choice in [0,n).  n<=1 consumes nothing.
func (s *Source) Intn(n int) int {
	if n <= 1 {
		return 0
	}
	var v uint32
	if s.isRep {
		if s.pos < len(s.replay) {
			v = s.replay[s.pos] % uint32(n)
		}
		s.pos++
	} else {
		v = uint32(s.rng.Uint64N(uint64(n)))
	}
	s.Rec = append(s.Rec, v)
	return int(v)
}

// Bool is Intn(2)==1.
func (s *Source) Bool() bool { return s.Intn(2) == 1 }

// Pct is true with probability p/100; 0 (the simplest choice) is false.
func (s *Source) Pct(p int) bool {
	if p <= 0 {
		return false
	}
	// map the "true" outcomes to the high values so that 0 means false
	return s.Intn(100) >= 100-p
}

// Consumed reports how many draws were made (replay: how many were asked for).
func (s *Source) Consumed() int { return len(s.Rec) }
