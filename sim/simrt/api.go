package simrt

import (
	"reflect"
	"sort"
)

// P is a potential pre-emption point spliced before statements of the
// instrumented copy.  Only the sites enabled for this run yield.
//
//go:norace
func P(site int) {
	if curRun == nil || curTask < 0 {
		return
	}
	if pOn && pMask[site] {
		do(opYield, int64(site), 0, 0, 0)
		return
	}
	// a task that passes thousands of statements without a single scheduling point is spinning (a busy
	// wait on something the simulator does not know): make it yield, so that others run and the step cap
	// can call it a hang
	pSpin++
	if pSpin >= spinYield {
		do(opYield, -int64(site), 0, 0, 0)
	}
}

const spinYield = 2000

var pSpin int

// Yield is an explicit scheduling point in harness code.
func Yield() {
	if Active() {
		do(opYield, 0, 0, 0, 0)
	}
}

// Emit logs an observer event (a scheduling point) and returns its global
// sequence number.
func Emit(kind int32, a, b, c int64) int64 {
	if !Active() {
		return -1
	}
	return do(opEvent, int64(kind), a, b, c)
}

// Gate parks the task until gate g is open (a stalled slow call).
func Gate(g int64) {
	if Active() {
		do(opGate, g, 0, 0, 0)
	}
}

// Open opens gate g.
func Open(g int64) {
	if Active() {
		do(opOpen, g, 0, 0, 0)
	}
}

// Call runs the run's Handler on the scheduler goroutine (a scheduling point).
func Call(a, b, c, d int64) int64 {
	if !Active() {
		return 0
	}
	return do(opHandler, a, b, c, d)
}

// CallNY is Call without giving up the processor.
func CallNY(a, b, c, d int64) int64 {
	if !Active() {
		return 0
	}
	return do(opHandlerNY, a, b, c, d)
}

// Choice draws from the schedule stream on behalf of a task (not a scheduling point).
func Choice(n int) int {
	if !Active() || n <= 1 {
		return 0
	}
	return int(do(opChoice, int64(n), 0, 0, 0))
}

// --- simsync entry points -----------------------------------------------------------

func Lock(obj int64)    { do(opLock, obj, 0, 0, 0) }
func Unlock(obj int64)  { do(opUnlock, obj, 0, 0, 0) }
func RLock(obj int64)   { do(opRLock, obj, 0, 0, 0) }
func RUnlock(obj int64) { do(opRUnlock, obj, 0, 0, 0) }
func WgAdd(obj int64, delta int64) {
	do(opWgAdd, obj, delta, 0, 0)
}
func WgWait(obj int64) { do(opWgWait, obj, 0, 0, 0) }

// Fatal reports a misuse that the real runtime would answer with a fatal error
// (unlock of an unlocked mutex, ...).  The run is abandoned; the caller never returns.
func Fatal(code int64, obj int64) { do(opFatal, code, obj, 0, 0) }

// --- map iteration order -------------------------------------------------------------

//go:norace
func shuffleOn() bool { return curRun != nil && curTask >= 0 && curRun.Cfg.ShuffleMaps }

//go:norace
func noteRange(perm bool) {
	if curRun != nil && curTask >= 0 {
		// counters are scheduler-owned; use a non-yielding handler-free path:
		// piggy-back on opChoice with n=1 is not possible, so keep two task-side
		// counters that only the (serial) tasks touch.
		curRun.tsMapRanges++
		if perm {
			curRun.tsMapShuffles++
		}
	}
}

// KeysStr returns the keys of a map with string keys in the order the
// simulation chose: sorted, then permuted by draws on the schedule stream when
// the run's configuration shuffles maps.  Outside a simulation: sorted.
func KeysStr(m interface{}) []string {
	v := reflect.ValueOf(m)
	if v.Kind() != reflect.Map || v.Len() == 0 {
		return nil
	}
	ks := v.MapKeys()
	out := make([]string, len(ks))
	for i, k := range ks {
		out[i] = k.String()
	}
	sort.Strings(out)
	perm := false
	if shuffleOn() {
		for i := len(out) - 1; i > 0; i-- {
			j := i - Choice(i+1) // 0 => keep in place
			if j != i {
				out[i], out[j] = out[j], out[i]
				perm = true
			}
		}
	}
	noteRange(perm)
	return out
}

// KeysAny is KeysStr for any key kind that can be ordered through its
// printed form; the caller converts with a type assertion.
func KeysAny(m interface{}) []interface{} {
	v := reflect.ValueOf(m)
	if v.Kind() != reflect.Map || v.Len() == 0 {
		return nil
	}
	ks := v.MapKeys()
	sort.Slice(ks, func(i, j int) bool { return lessValue(ks[i], ks[j]) })
	out := make([]interface{}, len(ks))
	for i, k := range ks {
		out[i] = k.Interface()
	}
	perm := false
	if shuffleOn() {
		for i := len(out) - 1; i > 0; i-- {
			j := i - Choice(i+1)
			if j != i {
				out[i], out[j] = out[j], out[i]
				perm = true
			}
		}
	}
	noteRange(perm)
	return out
}

func lessValue(a, b reflect.Value) bool {
	switch a.Kind() {
	case reflect.Int, reflect.Int8, reflect.Int16, reflect.Int32, reflect.Int64:
		return a.Int() < b.Int()
	case reflect.Uint, reflect.Uint8, reflect.Uint16, reflect.Uint32, reflect.Uint64, reflect.Uintptr:
		return a.Uint() < b.Uint()
	case reflect.String:
		return a.String() < b.String()
	case reflect.Float32, reflect.Float64:
		return a.Float() < b.Float()
	}
	return false
}

// GoCall is the replacement of `go f(a, b)` for callees that are not a
// zero-argument function literal: callee and arguments have been evaluated by
// the caller (as the go statement does), the call happens in the new task.
func GoCall(f interface{}, args ...interface{}) {
	fv := reflect.ValueOf(f)
	ft := fv.Type()
	in := make([]reflect.Value, len(args))
	for i, a := range args {
		if a == nil {
			var pt reflect.Type
			if ft.IsVariadic() && i >= ft.NumIn()-1 {
				pt = ft.In(ft.NumIn() - 1).Elem()
			} else {
				pt = ft.In(i)
			}
			in[i] = reflect.Zero(pt)
		} else {
			in[i] = reflect.ValueOf(a)
		}
	}
	Go(func() { fv.Call(in) })
}
