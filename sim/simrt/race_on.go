//go:build race

package simrt

import "runtime"

// RaceBuild reports whether the binary was built with -race.
const RaceBuild = true

func raceDisable() { runtime.RaceDisable() }
func raceEnable()  { runtime.RaceEnable() }
