package simrt

import (
	"fmt"
	"runtime/debug"
	"sync"
	"sync/atomic"
	"time"
)

// ---- operations sent from tasks to the scheduler ---------------------------

const (
	opYield int32 = iota
	opLock
	opUnlock
	opRLock
	opRUnlock
	opWgAdd
	opWgWait
	opSpawn
	opExit
	opCrash
	opEvent
	opGate
	opOpen
	opChoice  // non-yielding: reply = draw in [0,a)
	opHandler // yielding: reply = Handler(...)
	opHandlerNY
	opFatal // misuse of a sync primitive that the real runtime would `fatal`
	opStuck // from the monitor: the running task is blocked in a primitive the simulator does not control
)

var opNames = [...]string{"yield", "lock", "unlock", "rlock", "runlock", "wgadd", "wgwait", "spawn", "exit", "crash", "event", "gate", "open", "choice", "handler", "handlerNY", "fatal", "stuck"}

type msg struct {
	t          int32
	op         int32
	a, b, c, d int64
}

// ---- verdicts of the scheduler itself --------------------------------------

const (
	EndOK       = 0 // every task exited
	EndDeadlock = 1 // live tasks, none enabled, no closed gate to open
	EndHang     = 2 // step cap reached
	EndCrash    = 3 // a panic escaped a task (= process death in reality)
	EndFatal    = 4 // sync misuse (= runtime fatal error in reality)
	EndInfra    = 5 // simulator limits exceeded (too many tasks, ...)
)

var EndNames = [...]string{"ok", "deadlock", "hang", "crash", "fatal", "infra"}

// ---- strategies -------------------------------------------------------------

const (
	StratUniform = 0
	StratSticky  = 1
	StratStarve  = 2 // sticky + one task kind starved for a bounded number of steps
)

const MaxTasks = 8192
const MaxSites = 1 << 15

// Config is the per-run swarm configuration (drawn from the plan stream).
type Config struct {
	Strategy     int
	StickPermil  int   // probability (‰) of keeping the running task at a decision point
	StarveTag    int64 // tasks spawned with this tag are starved ...
	StarveBudget int   // ... for this many decision points in total
	StepCap      int64
	FairBound    int64 // an enabled task is never passed over at more than this many decision points in a row (bounded fairness)
	StallSteps   int64 // eventless steps after which a waited-on closed gate is opened
	ShuffleMaps  bool
	PProb        int // ‰ of P-sites enabled (informational; mask is in PMask)
	PMask        []bool
	Trace        bool // record the full schedule trace
}

// Event is one observer-visible event.  All payloads are integers.
type Event struct {
	Seq     int64
	Step    int64
	Task    int32
	Kind    int32
	A, B, C int64
}

// TraceStep is one scheduling step (only recorded when Config.Trace).
type TraceStep struct {
	Step int64
	Task int32
	Op   int32
	A, B int64
}

const (
	waitNone = iota
	waitLock
	waitRLock
	waitWg
	waitGate
	waitExited
	waitExternal // blocked in a channel operation, sleep, ... that was not instrumented (only code that is not gengine's does that)
)

type taskState struct {
	parent   int32
	tag      int64
	wait     int
	obj      int64
	since    int64 // step at which the current wait began
	scheds   int64 // how many times the task was resumed
	reply    int64
	spawnIdx int32
	newborn  int   // StratStarve: decisions for which the not-yet-started task is still passed over
	passed   int64 // decision points at which the task was enabled but not chosen, since it last ran
}

type objState struct {
	w     bool  // write-held
	owner int32 // holder when w
	r     int   // readers
	cnt   int64 // waitgroup counter
}

// Crash is a panic that escaped a task.
type Crash struct {
	Task  int32
	Value string
	Stack string
}

// Stats are per-run counters for evidence.
type Stats struct {
	Steps        int64
	Decisions    int64 // steps with >= 2 enabled tasks
	Switches     int64 // decisions that changed the running task
	Spawns       int64
	PYields      int64
	GateWaits    int64
	GateAuto     int64 // gates opened by quiescence
	GateStall    int64 // gates opened by the stall rule
	MapShuffles  int64 // map iterations whose order was permuted (non-identity)
	MapRanges    int64
	LockBlocks   int64 // Lock found the mutex held
	WgBlocks     int64
	MaxLive      int
	StarvedSteps int64
	ForcedFair   int64 // decisions taken by the bounded-fairness rule
	SpinYields     int64 // yields forced on a task that passed thousands of statements without a scheduling point
	ExternalBlocks int64 // times the running task was found blocked outside the simulator
}

// Run is one simulated execution.
type Run struct {
	Cfg   Config
	Sched *Source

	in   chan msg
	wake []chan int64
	done chan struct{}

	// owned by the scheduler goroutine while the run is in progress
	tasks      []taskState
	objs       []objState
	gateOpen   map[int64]bool
	Events     []Event
	Trace      []TraceStep
	St         Stats
	End        int
	EndInfo    string
	TraceHash  uint64
	cur        int32
	lastProg   int64
	starveLeft int
	idleShort  bool // waiting briefly for tasks blocked outside the simulator before treating the run as quiescent
	graceOver  bool
	running    bool // some task holds the processor
	Unstable   bool // a task blocked outside the simulator: the execution is not exactly repeatable
	stepsA     int64 // atomic mirror of St.Steps for the monitor
	curA       int32 // atomic mirror of cur (-1: idle)
	goids      [MaxTasks]int64
	stopMon    chan struct{}
	unstableA  int32

	// hooks, all run on the scheduler goroutine
	OnEvent   func(r *Run, e *Event)
	AfterStep func(r *Run)
	Handler   func(r *Run, task int32, a, b, c, d int64) int64
	// OnQuiescent is asked when nobody can move and only hold gates are closed; it may open gates
	// (returning true) before the scheduler falls back to opening the oldest hold gate itself
	OnQuiescent func(r *Run) bool

	// task-side (serial, accessed only in norace code)
	nextTask      int32
	nextObj       int64
	gen           uint32
	tsMapRanges   int64
	tsMapShuffles int64

	alive   sync.WaitGroup
	crashMu sync.Mutex
	Crashes []Crash
}

// ---- globals: the current run and the current task --------------------------

var (
	curRun  *Run
	curTask int32 = -1
	genCtr  uint32
	pOn     bool
	pMask   [MaxSites]bool
)

//go:norace
func getCur() (*Run, int32) { return curRun, curTask }

//go:norace
func setCur(r *Run, t int32) { curRun = r; curTask = t }

//go:norace
func setTask(t int32) { curTask = t }

// Active reports whether the caller runs as a task of a simulation.
//
//go:norace
func Active() bool { return curRun != nil && curTask >= 0 }

// Gen returns the generation number of the current run (0 when none); simsync
// uses it to invalidate object ids handed out in earlier runs.
//
//go:norace
func Gen() uint32 {
	if curRun == nil {
		return 0
	}
	return curRun.gen
}

// NewObj hands out the next object id of the current run (task side, serial).
//
//go:norace
func NewObj() int64 {
	return atomic.AddInt64(&curRun.nextObj, 1)
}

// ---- wake-channel pool -------------------------------------------------------

var chanPool [][]chan int64
var chanPoolMu sync.Mutex

func getChans() []chan int64 {
	chanPoolMu.Lock()
	defer chanPoolMu.Unlock()
	if n := len(chanPool); n > 0 {
		c := chanPool[n-1]
		chanPool = chanPool[:n-1]
		return c
	}
	c := make([]chan int64, MaxTasks)
	for i := range c {
		c[i] = make(chan int64, 1)
	}
	return c
}

func putChans(c []chan int64) {
	chanPoolMu.Lock()
	chanPool = append(chanPool, c)
	chanPoolMu.Unlock()
}

// ---- running ------------------------------------------------------------------

// NewRun prepares a run; set hooks on the result before calling Execute.
func NewRun(cfg Config, sched *Source) *Run {
	genCtr++
	r := &Run{Cfg: cfg, Sched: sched, gen: genCtr}
	r.in = make(chan msg)
	r.done = make(chan struct{})
	r.gateOpen = make(map[int64]bool)
	r.objs = make([]objState, 1, 64)
	r.tasks = make([]taskState, 0, 32)
	if r.Cfg.StepCap == 0 {
		r.Cfg.StepCap = 1000000
	}
	if r.Cfg.StallSteps == 0 {
		r.Cfg.StallSteps = 300
	}
	if r.Cfg.FairBound == 0 {
		r.Cfg.FairBound = 1500
	}
	r.starveLeft = cfg.StarveBudget
	return r
}

// Execute runs root as task 0 under the scheduler and returns when the run
// ended (all tasks exited) or was abandoned (deadlock, hang, crash, fatal).
// Tasks of an abandoned run stay parked for ever; they hold no real lock that
// anything else needs, and the worker process is short-lived.
func (r *Run) Execute(root func()) {
	r.wake = getChans()
	for i := range pMask {
		pMask[i] = false
	}
	n := 0
	for i, b := range r.Cfg.PMask {
		if i < MaxSites && b {
			pMask[i] = true
			n++
		}
	}
	pOn = n > 0
	r.nextTask = 1
	r.tasks = append(r.tasks, taskState{parent: -1})
	setCur(r, -1)
	r.alive.Add(1)
	r.stopMon = make(chan struct{})
	go r.taskMain(0, root)
	go r.loop()
	go r.monitor()
	<-r.done
	close(r.stopMon)
	setCur(nil, -1)
	pOn = false
	r.St.MapRanges, r.St.MapShuffles = r.tsMapRanges, r.tsMapShuffles
	if r.End == EndOK {
		r.alive.Wait() // visible join: everything the tasks wrote happens-before what follows
		putChans(r.wake)
	}
}

func (r *Run) taskMain(id int32, f func()) {
	defer r.alive.Done()
	atomic.StoreInt64(&r.goids[id], goid())
	raceDisable()
	<-r.wake[id]
	raceEnable()
	defer func() {
		if e := recover(); e != nil {
			st := string(debug.Stack())
			r.crashMu.Lock()
			r.Crashes = append(r.Crashes, Crash{Task: id, Value: fmt.Sprint(e), Stack: st})
			r.crashMu.Unlock()
			sendNoReply(r, id, opCrash)
		}
	}()
	f()
	sendNoReply(r, id, opExit)
}

//go:norace
func sendNoReply(r *Run, id int32, op int32) {
	raceDisable()
	r.in <- msg{t: id, op: op}
	raceEnable()
}

// do performs one operation on behalf of the current task and parks until the
// scheduler resumes it.  The channel operations are hidden from the race
// detector (RaceDisable only mutes synchronisation events), so that the
// serialisation imposed by the simulator adds no happens-before edge between
// tasks.
//
//go:norace
func do(op int32, a, b, c, d int64) int64 {
	pSpin = 0
	r, t := curRun, curTask
	if atomic.LoadInt32(&r.unstableA) != 0 {
		// a task that was blocked outside the simulator may run in parallel with the task that holds
		// the processor: the global "current task" word is not about the caller then
		t = r.taskOfGoroutine(goid(), t)
	}
	raceDisable()
	r.in <- msg{t, op, a, b, c, d}
	v := <-r.wake[t]
	raceEnable()
	return v
}

// Go starts f as a new task (replacement for the go statement).
func Go(f func()) { GoTag(0, f) }

// GoTag is Go with a tag the strategies can refer to (harness tasks only).
func GoTag(tag int64, f func()) {
	if !Active() {
		go f()
		return
	}
	r, id := newTaskID()
	if id >= MaxTasks {
		do(opFatal, 1, 0, 0, 0)
		return
	}
	r.alive.Add(1)
	go r.taskMain(id, f)
	do(opSpawn, int64(id), tag, 0, 0)
}

//go:norace
func newTaskID() (*Run, int32) {
	r := curRun
	return r, atomic.AddInt32(&r.nextTask, 1) - 1
}

// ---- the scheduler goroutine ---------------------------------------------------

func (r *Run) loop() {
	raceDisable()
	r.cur = 0
	r.resume(0)
	for {
		var m msg
		if r.running {
			m = <-r.in
		} else {
			// nobody holds the processor: every live task is blocked outside the simulator
			wait := 3 * time.Second
			if r.idleShort {
				wait = 150 * time.Millisecond
			}
			timedOut := false
			select {
			case m = <-r.in:
			case <-time.After(wait):
				timedOut = true
			}
			if timedOut {
				if r.idleShort {
					// the tasks blocked outside the simulator had their moment: now treat the situation as quiescent
					r.idleShort, r.graceOver = false, true
					if r.scheduleNext() {
						break
					}
					continue
				}
				r.finish(EndDeadlock, "every live task is blocked in a primitive outside the simulator: "+r.describeBlocked())
				break
			}
		}
		if r.step(m) {
			break
		}
	}
	raceEnable()
	close(r.done)
}

func (r *Run) resume(t int32) {
	ts := &r.tasks[t]
	// grant what the task was waiting for
	switch ts.wait {
	case waitLock:
		o := &r.objs[ts.obj]
		o.w = true
		o.owner = t
	case waitRLock:
		r.objs[ts.obj].r++
	}
	ts.wait = waitNone
	ts.newborn = 0
	ts.scheds++
	r.cur = t
	r.running = true
	atomic.StoreInt32(&r.curA, t)
	setTask(t)
	r.wake[t] <- ts.reply
}

func (r *Run) obj(id int64) *objState {
	for int64(len(r.objs)) <= id {
		r.objs = append(r.objs, objState{})
	}
	return &r.objs[id]
}

func (r *Run) hash(m *msg) {
	h := r.TraceHash
	for _, v := range [...]uint64{uint64(m.t), uint64(m.op), uint64(m.a), uint64(m.b)} {
		h ^= v
		h *= 1099511628211
	}
	r.TraceHash = h
}

func (r *Run) finish(end int, info string) bool {
	r.End = end
	r.EndInfo = info
	r.St.Steps = r.Steps()
	return true
}

// Steps returns the number of scheduler steps so far (logical time).
func (r *Run) Steps() int64 { return r.St.Steps }

// step processes one message; it returns true when the run is over.
func (r *Run) step(m msg) bool {
	if m.op == opStuck {
		if !r.running || m.t != r.cur || m.a != r.St.Steps {
			return false // stale report
		}
		// the running task sits in a channel operation / sleep / foreign lock: take the processor away from it
		r.Unstable = true
		atomic.StoreInt32(&r.unstableA, 1)
		r.St.ExternalBlocks++
		r.tasks[m.t].wait = waitExternal
		r.running = false
		atomic.StoreInt32(&r.curA, -1)
		return r.scheduleNext()
	}
	r.St.Steps++
	r.idleShort, r.graceOver = false, false
	atomic.StoreInt64(&r.stepsA, r.St.Steps)
	t := m.t
	late := !(r.running && t == r.cur) // a task that had been blocked outside the simulator reports back
	if r.tasks[t].wait == waitExternal {
		r.tasks[t].wait = waitNone
	}
	ts := &r.tasks[t]
	ts.reply = 0
	if m.op != opChoice && m.op != opHandlerNY {
		r.hash(&m)
		if r.Cfg.Trace {
			r.Trace = append(r.Trace, TraceStep{r.St.Steps, t, m.op, m.a, m.b})
		}
	}
	switch m.op {
	case opYield:
		if m.a > 0 {
			r.St.PYields++
		} else if m.a < 0 {
			r.St.SpinYields++
		}
	case opLock:
		ts.wait, ts.obj, ts.since = waitLock, m.a, r.St.Steps
		if o := r.obj(m.a); o.w || o.r > 0 {
			r.St.LockBlocks++
		}
	case opRLock:
		ts.wait, ts.obj, ts.since = waitRLock, m.a, r.St.Steps
		r.obj(m.a)
	case opUnlock:
		o := r.obj(m.a)
		o.w = false
	case opRUnlock:
		o := r.obj(m.a)
		o.r--
	case opWgAdd:
		o := r.obj(m.a)
		o.cnt += m.b
		r.lastProg = r.St.Steps
	case opWgWait:
		ts.wait, ts.obj, ts.since = waitWg, m.a, r.St.Steps
		if r.obj(m.a).cnt > 0 {
			r.St.WgBlocks++
		}
	case opSpawn:
		id := int32(m.a)
		for int32(len(r.tasks)) <= id {
			r.tasks = append(r.tasks, taskState{wait: waitExited})
		}
		r.tasks[id] = taskState{parent: t, tag: m.b}
		if r.Cfg.Strategy == StratStarve {
			r.tasks[id].newborn = r.Cfg.StarveBudget
		}
		ts = &r.tasks[t]
		r.St.Spawns++
		r.lastProg = r.St.Steps
	case opExit:
		ts.wait = waitExited
		r.lastProg = r.St.Steps
	case opCrash:
		return r.finish(EndCrash, fmt.Sprintf("task %d", t))
	case opFatal:
		if m.a == 1 {
			return r.finish(EndInfra, "too many tasks")
		}
		return r.finish(EndFatal, fmt.Sprintf("task %d: sync misuse code %d on object %d", t, m.a, m.b))
	case opEvent:
		e := Event{Seq: int64(len(r.Events)), Step: r.St.Steps, Task: t, Kind: int32(m.a), A: m.b, B: m.c, C: m.d}
		r.Events = append(r.Events, e)
		ts.reply = e.Seq
		r.lastProg = r.St.Steps
		if r.OnEvent != nil {
			r.OnEvent(r, &r.Events[len(r.Events)-1])
		}
	case opGate:
		if !r.gateOpen[m.a] {
			ts.wait, ts.obj, ts.since = waitGate, m.a, r.St.Steps
			r.St.GateWaits++
		}
		r.lastProg = r.St.Steps
	case opOpen:
		r.gateOpen[m.a] = true
		r.lastProg = r.St.Steps
	case opChoice:
		ts.reply = int64(r.Sched.Intn(int(m.a)))
		if !late {
			r.wake[t] <- ts.reply
			return false
		}
	case opHandlerNY:
		ts.reply = r.Handler(r, t, m.a, m.b, m.c, m.d)
		if !late {
			r.wake[t] <- ts.reply
			return false
		}
	case opHandler:
		ts.reply = r.Handler(r, t, m.a, m.b, m.c, m.d)
		r.lastProg = r.St.Steps
	}
	if r.AfterStep != nil {
		r.AfterStep(r)
	}
	if late && r.running {
		return false // somebody else holds the processor; t stays parked until it is picked
	}
	if !late {
		r.running = false
	}
	if r.St.Steps >= r.Cfg.StepCap {
		return r.finish(EndHang, fmt.Sprintf("step cap %d reached", r.Cfg.StepCap))
	}
	// stall rule: a closed gate somebody waits on is opened after StallSteps eventless steps
	if r.St.GateWaits > 0 && r.St.Steps-r.lastProg >= r.Cfg.StallSteps {
		if g, ok := r.oldestGate(true); ok {
			r.gateOpen[g] = true
			r.St.GateStall++
			r.lastProg = r.St.Steps
		}
	}
	return r.scheduleNext()
}

// scheduleNext gives the processor to the next task; when nobody can move it opens gates
// (quiescence rule: ordinary gates first, then the controller's say, then hold gates), waits for
// tasks blocked outside the simulator, or ends the run.
func (r *Run) scheduleNext() bool {
	next, live := r.pick()
	for next < 0 {
		if live == 0 {
			return r.finish(EndOK, "")
		}
		g, ok := r.oldestGate(true) // ordinary gates first
		if !ok && r.anyExternal() && !r.graceOver {
			// somebody is blocked in a channel / condition / sleep and may be about to come back: this is
			// not quiescence yet
			r.idleShort = true
			atomic.StoreInt32(&r.curA, -1)
			return false
		}
		if !ok {
			if r.OnQuiescent != nil && r.OnQuiescent(r) {
				next, live = r.pick()
				continue
			}
			g, ok = r.oldestGate(false)
		}
		if !ok {
			if r.anyExternal() {
				atomic.StoreInt32(&r.curA, -1)
				return false // wait (in real time) for a task blocked outside the simulator to come back
			}
			return r.finish(EndDeadlock, r.describeBlocked())
		}
		r.gateOpen[g] = true
		r.St.GateAuto++
		next, live = r.pick()
	}
	r.resume(next)
	return false
}

// HoldGateBit marks gates that only their controller (or true quiescence) may
// open: the stall rule leaves them alone.
const HoldGateBit = int64(1) << 60

func (r *Run) oldestGate(stall bool) (int64, bool) {
	best, bestSince, ok := int64(0), int64(0), false
	for i := range r.tasks {
		ts := &r.tasks[i]
		if ts.wait == waitGate && !r.gateOpen[ts.obj] {
			if stall && ts.obj&HoldGateBit != 0 {
				continue
			}
			if !ok || ts.since < bestSince {
				best, bestSince, ok = ts.obj, ts.since, true
			}
		}
	}
	return best, ok
}

func (r *Run) enabled(ts *taskState) bool {
	switch ts.wait {
	case waitNone:
		return true
	case waitLock:
		o := &r.objs[ts.obj]
		return !o.w && o.r == 0
	case waitRLock:
		// Go's RWMutex prefers writers: once a writer has announced itself, new readers queue behind it
		return !r.objs[ts.obj].w && !r.writerPending(ts.obj)
	case waitWg:
		return r.objs[ts.obj].cnt <= 0
	case waitGate:
		return r.gateOpen[ts.obj]
	}
	return false
}

func (r *Run) writerPending(obj int64) bool {
	for i := range r.tasks {
		if t := &r.tasks[i]; t.wait == waitLock && t.obj == obj {
			return true
		}
	}
	return false
}

var enabledBuf [MaxTasks]int32

// pick draws the next task.  The candidate list has the running task first (so
// that choice 0 means "no pre-emption") and the others in task-id order.
func (r *Run) pick() (next int32, live int) {
	en := enabledBuf[:0]
	curEnabled := false
	for i := range r.tasks {
		ts := &r.tasks[i]
		if ts.wait == waitExited {
			continue
		}
		live++
		if r.enabled(ts) {
			if int32(i) == r.cur {
				curEnabled = true
			} else {
				en = append(en, int32(i))
			}
		}
	}
	if live > r.St.MaxLive {
		r.St.MaxLive = live
	}
	n := len(en)
	if curEnabled {
		n++
	}
	if n == 0 {
		return -1, live
	}
	at := func(i int) int32 {
		if curEnabled {
			if i == 0 {
				return r.cur
			}
			return en[i-1]
		}
		return en[i]
	}
	if n == 1 {
		return at(0), live
	}
	r.St.Decisions++
	var c int32
	// bounded fairness: whatever the choice list says, nobody who can run is passed
	// over for ever (the Go scheduler is preemptive; a verdict "hang" must not be an
	// artefact of an unfair schedule, in particular not of a minimised all-zero one)
	forced := int32(-1)
	for i := 0; i < n; i++ {
		if t := at(i); t != r.cur && r.tasks[t].passed >= r.Cfg.FairBound && (forced < 0 || r.tasks[t].passed > r.tasks[forced].passed) {
			forced = t
		}
	}
	if forced >= 0 {
		r.St.ForcedFair++
		c = forced
		goto chosen
	}
	switch r.Cfg.Strategy {
	case StratUniform:
		c = at(r.Sched.Intn(n))
	default:
		// one draw per decision point: low values keep the running task
		v := r.Sched.Intn(1000)
		if curEnabled && v < r.Cfg.StickPermil {
			c = r.cur
		} else {
			c = at(v % n)
		}
		if r.Cfg.Strategy == StratStarve && r.tasks[c].newborn > 0 {
			// slow goroutine start: a task that has never run is passed over while anybody else can run
			for i := 0; i < n; i++ {
				if o := at(i); r.tasks[o].newborn == 0 {
					r.tasks[c].newborn--
					c = o
					r.St.StarvedSteps++
					break
				}
			}
		}
	}
chosen:
	for i := 0; i < n; i++ {
		if t := at(i); t != c {
			r.tasks[t].passed++
		}
	}
	r.tasks[c].passed = 0
	if c != r.cur {
		r.St.Switches++
	}
	return c, live
}

//go:norace
func (r *Run) taskOfGoroutine(id int64, dflt int32) int32 {
	n := atomic.LoadInt32(&r.nextTask)
	for i := int32(0); i < n && i < MaxTasks; i++ {
		if atomic.LoadInt64(&r.goids[i]) == id {
			return i
		}
	}
	return dflt
}

func (r *Run) anyExternal() bool {
	for i := range r.tasks {
		if r.tasks[i].wait == waitExternal {
			return true
		}
	}
	return false
}

// monitor watches (in real time) for a running task that stopped making steps because it is
// blocked in a primitive the instrumenter does not know (a channel, a sleep, a foreign lock).
func (r *Run) monitor() {
	last, same := int64(-1), 0
	for {
		select {
		case <-r.stopMon:
			return
		case <-time.After(25 * time.Millisecond):
		}
		st := atomic.LoadInt64(&r.stepsA)
		cur := atomic.LoadInt32(&r.curA)
		if st != last || cur < 0 {
			last, same = st, 0
			continue
		}
		same++
		if same < 3 {
			continue
		}
		if blockedOutside(atomic.LoadInt64(&r.goids[cur])) {
			select {
			case r.in <- msg{t: cur, op: opStuck, a: st}:
			case <-r.stopMon:
				return
			}
			same = 0
		}
	}
}

func (r *Run) describeBlocked() string {
	s := ""
	for i := range r.tasks {
		ts := &r.tasks[i]
		if ts.wait == waitExited || ts.wait == waitNone {
			continue
		}
		kind := [...]string{"", "lock", "rlock", "wg", "gate", "", "external"}[ts.wait]
		s += fmt.Sprintf("t%d:%s#%d ", i, kind, ts.obj)
	}
	return s
}

// ---- scheduler-side helpers for hooks ---------------------------------------------

// OpenGate opens gate g (hook side).
func (r *Run) OpenGate(g int64) { r.gateOpen[g] = true }

// GateIsOpen reports the state of gate g (hook side).
func (r *Run) GateIsOpen(g int64) bool { return r.gateOpen[g] }

// TaskScheds returns how often task t has been resumed (hook side).
func (r *Run) TaskScheds(t int32) int64 { return r.tasks[t].scheds }

// WaitingOnGate returns the number of tasks currently parked on closed gate g.
func (r *Run) WaitingOnGate(g int64) int {
	n := 0
	for i := range r.tasks {
		if r.tasks[i].wait == waitGate && r.tasks[i].obj == g && !r.gateOpen[g] {
			n++
		}
	}
	return n
}

// NumTasks returns the number of tasks created so far.
func (r *Run) NumTasks() int { return len(r.tasks) }

// TaskParent returns the parent of task t (-1 for the root).
func (r *Run) TaskParent(t int32) int32 { return r.tasks[t].parent }

// OpName names a trace operation.
func OpName(op int32) string { return opNames[op] }
