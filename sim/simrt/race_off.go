//go:build !race

package simrt

// RaceBuild reports whether the binary was built with -race.
const RaceBuild = false

func raceDisable() {}
func raceEnable()  {}
