#!/bin/bash
# Build the framework from files on disk only (offline) and warm the Go build
# cache for the normal and the -race harness builds.
set -e
cd "$(dirname "$0")"
export GOFLAGS=-mod=mod GOPROXY=off GOSUMDB=off GOTOOLCHAIN=local
mkdir -p bin evidence
(cd tools/instrument && go build -o ../../bin/instrument .)
S=$(mktemp -d -p "${VERIF_SCRATCH:-/var/tmp}" verif-setup-XXXXXX)
trap 'rm -rf "$S"' EXIT
./bin/instrument -src "${VERIF_REPO:-/repo}" -dst "$S/gengine" -psites engine,builder,context,internal/base/conc_statement.go,internal/base/rule_entity.go
sed "s#=> /repo#=> $S/gengine#" sim/go.mod > "$S/sim.mod"
cp sim/go.sum "$S/sim.sum"
(cd sim && go build -modfile="$S/sim.mod" -trimpath -o "$S/worker" ./cmd/worker)
(cd sim && go build -race -modfile="$S/sim.mod" -trimpath -o "$S/worker-race" ./cmd/worker)
"$S/worker" -prop C05 -seed 1 -runs 20 -secs 30 -dump -sites "$S/gengine/.vsites.json" > "$S/a.txt"
GOMAXPROCS=1 "$S/worker" -prop C05 -seed 1 -runs 20 -secs 30 -dump -sites "$S/gengine/.vsites.json" > "$S/b.txt"
cmp "$S/a.txt" "$S/b.txt" || { echo "setup: simulator is not deterministic" >&2; exit 2; }
echo "setup: ok"
